use std::sync::atomic::{AtomicUsize, Ordering};
use cucumber::{given, writer, StatsWriter as _, World, WriterExt as _};
use futures::FutureExt as _;

static N: AtomicUsize = AtomicUsize::new(0);

#[derive(Debug, Default, World)]
struct W;

#[given("a step")]
fn a_step(_: &mut W) {}

#[tokio::test]
async fn hook_fails_then_retry_passes() {
    let w = W::cucumber()
        .after(|_, _, _, _, _| async {
            if N.fetch_add(1, Ordering::SeqCst) == 0 { panic!("boom"); }
        }.boxed_local())
        .with_writer(writer::Basic::raw(std::io::sink(), writer::Coloring::Never, 0).summarized().assert_normalized())
        .with_default_cli()
        .run("tests/features/probe")
        .await;
    use cucumber::StatsWriter as S;
    eprintln!("failed_steps={} hook_errors={} retried_steps={} exec_failed={} scen={:?}",
        S::<W>::failed_steps(&w), S::<W>::hook_errors(&w), S::<W>::retried_steps(&w), S::<W>::execution_has_failed(&w), w.scenarios_stats());
}
