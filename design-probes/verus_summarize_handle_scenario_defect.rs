#![allow(unused_imports, dead_code, unused_variables)]
use vstd::prelude::*;
use std::sync::Arc;
use std::collections::HashMap;
use std::hash::{Hash, Hasher};
verus! {

// ---- prelude (dependency stand-ins) ----
pub mod gherkin {
    use vstd::prelude::*;
    #[verifier::external_body] pub struct Feature { _p: () }
    #[verifier::external_body] pub struct Rule { _p: () }
    #[verifier::external_body] pub struct Scenario { _p: () }
    #[verifier::external_body] pub struct Step { _p: () }
}
pub mod regex { use vstd::prelude::*; #[verifier::external_body] pub struct CaptureLocations { _p: () } }
pub mod step { use vstd::prelude::*;
    pub struct Location { pub line: u32, pub column: u32 }
    #[verifier::external_body] pub struct AmbiguousMatchError { _p: () } }
#[verifier::external_body] pub struct Info { _p: () }
#[verifier::external_body]
#[verifier::reject_recursive_types(T)]
pub struct Source<T> { _p: std::marker::PhantomData<T> }
#[verifier::external]
impl<T> std::ops::Deref for Source<T> { type Target = T; fn deref(&self) -> &T { unimplemented!() } }
pub uninterp spec fn source_val<T>(s: &Source<T>) -> &T;
pub assume_specification<T>[<Source<T> as std::ops::Deref>::deref](a: &Source<T>) -> (r: &T) ensures r == source_val(a);

pub uninterp spec fn deref_spec<T: std::ops::Deref>(t: &T) -> &T::Target;
pub assume_specification<T: std::ops::Deref>[Option::<T>::as_deref](o: &Option<T>) -> (r: Option<&T::Target>)
    ensures o.is_none() <==> r.is_none(), o.is_some() ==> r.unwrap() == deref_spec(&o->Some_0);
pub mod parser { use vstd::prelude::*;
    #[verifier::external_body] pub struct Error { _p: () }
    pub type Result<T> = std::result::Result<T, Error>; }

// ---- extracted crate types (event.rs) ----
#[derive(Clone, Copy)]
pub struct Retries { pub current: usize, pub left: usize }
pub mod event {
use vstd::prelude::*;
use super::*;
pub use super::Retries;
pub enum Cucumber<World> {
    Started,
    Feature(Source<gherkin::Feature>, Feature<World>),
    ParsingFinished { features: usize, rules: usize, scenarios: usize, steps: usize, parser_errors: usize },
    Finished,
}
pub enum Feature<World> {
    Started,
    Rule(Source<gherkin::Rule>, Rule<World>),
    Scenario(Source<gherkin::Scenario>, RetryableScenario<World>),
    Finished,
}
pub enum Rule<World> {
    Started,
    Scenario(Source<gherkin::Scenario>, RetryableScenario<World>),
    Finished,
}
pub enum Step<World> {
    Started,
    Skipped,
    Passed(regex::CaptureLocations, Option<step::Location>),
    Failed(Option<regex::CaptureLocations>, Option<step::Location>, Option<Arc<World>>, StepError),
}
pub enum StepError { NotFound, AmbiguousMatch(step::AmbiguousMatchError), Panic(Info) }
pub enum HookType { Before, After }
pub enum Hook<World> { Started, Passed, Failed(Option<Arc<World>>, Info) }
pub enum Scenario<World> {
    Started,
    Hook(HookType, Hook<World>),
    Background(Source<gherkin::Step>, Step<World>),
    Step(Source<gherkin::Step>, Step<World>),
    Log(String),
    Finished,
}
pub struct RetryableScenario<World> { pub event: Scenario<World>, pub retries: Option<Retries> }

impl<World> Cucumber<World> {
    pub fn scenario(
        feat: Source<gherkin::Feature>,
        rule: Option<Source<gherkin::Rule>>,
        scenario: Source<gherkin::Scenario>,
        event: RetryableScenario<World>,
    ) -> (r: Self)
        ensures r == (match rule { Some(rr) => Cucumber::Feature(feat, Feature::Rule(rr, Rule::Scenario(scenario, event))), None => Cucumber::Feature(feat, Feature::Scenario(scenario, event)) })
    {
        Self::Feature(
            feat.into(),
            if let Some(r) = rule {
                Feature::Rule(r.into(), Rule::Scenario(scenario.into(), event))
            } else {
                Feature::Scenario(scenario.into(), event)
            },
        )
    }
}
impl<World> Scenario<World> {
    pub const fn with_retries(self, retries: Option<Retries>) -> (r: RetryableScenario<World>)
        ensures r == (RetryableScenario { event: self, retries })
    {
        RetryableScenario { event: self, retries }
    }
}
}
pub struct Event<T> { pub value: T }
impl<T> Event<T> {
    pub fn map<V, F: FnOnce(T) -> V>(self, f: F) -> (r: Event<V>)
        requires call_requires(f, (self.value,)),
        ensures call_ensures(f, (self.value,), r.value)
    {
        let (val, meta) = self.split();
        meta.insert(f(val))
    }
    pub fn split(self) -> (r: (T, Event<()>)) ensures r.0 == self.value { self.replace(()) }
    pub fn insert<V>(self, value: V) -> (r: Event<V>) ensures r.value == value { self.replace(value).1 }
    pub fn replace<V>(self, value: V) -> (r: (T, Event<V>)) ensures r.0 == self.value, r.1.value == value {
        let event = Event { value };
        (self.value, event)
    }
}

pub type Ev<W> = parser::Result<Event<event::Cucumber<W>>>;
pub trait Writer<World>: Sized {
    type Cli;
    spec fn log(&self) -> Seq<Ev<World>>;
    fn handle_event(&mut self, event: Ev<World>, cli: &Self::Cli)
        ensures final(self).log() == old(self).log().push(event);
}


#[verifier::allow(undeclared_external_trait)]
pub assume_specification<T, P>[Option::<T>::filter](o: Option<T>, p: P) -> (r: Option<T>)
    where P: FnOnce(&T) -> bool + core::marker::Destruct, T: core::marker::Destruct,
    requires o.is_some() ==> call_requires(p, (&o.unwrap(),)),
    ensures o.is_none() ==> r.is_none(),
        o.is_some() ==> exists|b: bool| call_ensures(p, (&o.unwrap(),), b) && r == (if b { o } else { None }),
;
pub assume_specification<T, F: FnOnce(T) -> bool>[Option::<T>::is_some_and](o: Option<T>, f: F) -> (r: bool)
    requires o.is_some() ==> call_requires(f, (o.unwrap(),)),
    ensures o.is_none() ==> !r, o.is_some() ==> call_ensures(f, (o.unwrap(),), r),
;
#[verifier::external]
impl<T> std::ops::Deref for Event<T> { type Target = T; fn deref(&self) -> &T { &self.value } }
pub assume_specification<T>[<Event<T> as std::ops::Deref>::deref](a: &Event<T>) -> (r: &T) ensures *r == a.value;
pub assume_specification<T: std::ops::Deref, E>[Result::<T, E>::as_deref](o: &Result<T, E>) -> (r: Result<&T::Target, &E>)
    ensures o is Ok <==> r is Ok, o is Ok ==> r->Ok_0 == deref_spec(&o->Ok_0), o is Err ==> *(r->Err_0) == o->Err_0;
pub broadcast proof fn axiom_event_deref<T>(e: &Event<T>) ensures #[trigger] *deref_spec(e) == e.value { admit(); }

#[verifier::external] impl<T> Clone for Source<T> { fn clone(&self) -> Self { unimplemented!() } }
pub assume_specification<T>[<Source<T> as Clone>::clone](a: &Source<T>) -> (r: Source<T>) ensures r == *a;
#[verifier::external] impl<T> PartialEq for Source<T> { fn eq(&self, o: &Self) -> bool { unimplemented!() } }
#[verifier::external] impl<T> Eq for Source<T> {}
#[verifier::external] impl<T> Hash for Source<T> { fn hash<H: Hasher>(&self, state: &mut H) { unimplemented!() } }
#[verifier::external] impl<T> AsRef<T> for Source<T> { fn as_ref(&self) -> &T { unimplemented!() } }
pub assume_specification<T>[<Source<T> as AsRef<T>>::as_ref](a: &Source<T>) -> (r: &T) ensures r == source_val(a);
pub type Path = (Source<gherkin::Feature>, Option<Source<gherkin::Rule>>, Source<gherkin::Scenario>);
#[verifier::external_body]
pub broadcast proof fn axiom_path_key_model() ensures #[trigger] vstd::std_specs::hash::obeys_key_model::<Path>() {}

enum Indicator { Failed, Skipped, Retried }
enum State { InProgress, FinishedButNotOutput, FinishedAndOutput }
pub struct Stats { pub passed: usize, pub skipped: usize, pub failed: usize, pub retried: usize }
pub struct Summarize<Writer> {
    writer: Writer, features: usize, rules: usize, scenarios: Stats, steps: Stats,
    parsing_errors: usize, failed_hooks: usize, state: State, handled_scenarios: HashMap<Path, Indicator>,
}
impl<Wr> Summarize<Wr> {
    #[verifier::external_body]
    fn handle_step<W>(&mut self, feature: Source<gherkin::Feature>, rule: Option<Source<gherkin::Rule>>, scenario: Source<gherkin::Scenario>,
        step: &gherkin::Step, ev: &event::Step<W>, retries: Option<Retries>) { unimplemented!() }

    fn handle_scenario<W>(
        &mut self,
        feature: Source<gherkin::Feature>,
        rule: Option<Source<gherkin::Rule>>,
        scenario: Source<gherkin::Scenario>,
        ev: &event::RetryableScenario<W>,
    )
        requires old(self).failed_hooks < usize::MAX, old(self).scenarios.failed < usize::MAX, old(self).scenarios.passed < usize::MAX,
            old(self).scenarios.skipped > 0 || !(old(self).handled_scenarios@.contains_key((feature, rule, scenario)) && old(self).handled_scenarios@[(feature, rule, scenario)] is Skipped),
        ensures
            (ev.event is Hook && ev.event->Hook_1 is Failed) ==> final(self).failed_hooks == old(self).failed_hooks + 1,
            // statement-derived clause expected to FAIL on the real code (hook failure of a retried attempt is not final):
            (ev.event is Hook && ev.event->Hook_1 is Failed && ev.retries.is_some() && ev.retries.unwrap().left > 0)
                ==> final(self).scenarios.failed == old(self).scenarios.failed,
    {
        broadcast use axiom_path_key_model;
        use event::{Hook, Scenario};

        let path = (feature, rule, scenario);

        let ret = ev.retries;
        match &ev.event {
            Scenario::Started
            | Scenario::Hook(_, Hook::Passed | Hook::Started)
            | Scenario::Log(_) => {}
            Scenario::Hook(_, Hook::Failed(..)) => {
                match self.handled_scenarios.get(&path) {
                    Some(Indicator::Failed | Indicator::Retried) => {}
                    Some(Indicator::Skipped) => {
                        self.scenarios.skipped -= 1;
                        self.scenarios.failed += 1;
                    }
                    None => {
                        self.scenarios.failed += 1;
                        let _ = self
                            .handled_scenarios
                            .insert(path, Indicator::Failed);
                    }
                }
                self.failed_hooks += 1;
            }
            Scenario::Background(st, ev) | Scenario::Step(st, ev) => {
                self.handle_step(path.0, path.1, path.2, st.as_ref(), ev, ret);
            }
            Scenario::Finished => {
                let is_retried = self
                    .handled_scenarios
                    .get(&path)
                    .is_some_and(|ind: &Indicator| -> (b: bool) ensures b == (ind is Retried) { matches!(ind, Indicator::Retried) });

                if !is_retried && self.handled_scenarios.remove(&path).is_none()
                {
                    self.scenarios.passed += 1;
                }
            }
        }
    }
}
}
fn main() {}
