#![allow(unused_imports, dead_code, unused_variables)]
use vstd::prelude::*;
verus! {

// ---- prelude ----
pub assume_specification<T: Default>[core::mem::take::<T>](dest: &mut T) -> (r: T)
    ensures r == *old(dest), call_ensures(T::default, (), *final(dest));

pub mod gherkin {
    use vstd::prelude::*;
    #[verifier::external_body] pub struct Feature { _p: () }
    #[verifier::external_body] pub struct Rule { _p: () }
    #[verifier::external_body] pub struct Scenario { _p: () }
    #[verifier::external_body] pub struct Step { _p: () }
}
#[verifier::external_body]
#[verifier::reject_recursive_types(T)]
pub struct Source<T> { _p: std::marker::PhantomData<T> }

pub mod parser {
    use vstd::prelude::*;
    #[verifier::external_body] pub struct Error { _p: () }
    pub type Result<T> = std::result::Result<T, Error>;
}
#[verifier::external]
impl Clone for parser::Error { fn clone(&self) -> Self { unimplemented!() } }
pub assume_specification[<parser::Error as Clone>::clone](a: &parser::Error) -> (r: parser::Error) ensures r == *a;

// ---- extracted crate types (shortened by hand for the probe) ----
pub struct Event<T> { pub value: T }
pub mod event {
    use vstd::prelude::*;
    use super::*;
    pub enum Cucumber<World> { Started, Feature(Source<gherkin::Feature>, Feature<World>), ParsingFinished { features: usize }, Finished }
    pub enum Feature<World> { Started, Scenario(Source<gherkin::Scenario>, World), Finished }
}
pub type Ev<W> = parser::Result<Event<event::Cucumber<W>>>;

pub uninterp spec fn ev_clone_ok<W>(a: Ev<W>, b: Ev<W>) -> bool;

// ghost-log writer contract (inner writers are observed only through the events they are handed)
pub trait Writer<World>: Sized {
    type Cli;
    spec fn log(&self) -> Seq<Ev<World>>;
    fn handle_event(&mut self, event: Ev<World>, cli: &Self::Cli)
        ensures final(self).log() == old(self).log().push(event);
}

pub struct Repeat<W, Wr, F> {
    writer: Wr,
    filter: F,
    events: Vec<Ev<W>>,
}

#[verifier::external_body]
fn ev_clone<W>(e: &Ev<W>) -> (r: Ev<W>) ensures r == *e { unimplemented!() }
#[verifier::external_body]
fn is_finished_ev<W>(e: &Ev<W>) -> (r: bool) ensures r == (e is Ok && e->Ok_0.value is Finished) { unimplemented!() }

impl<W, Wr: Writer<W>, F: Fn(&Ev<W>) -> bool> Repeat<W, Wr, F> {
    fn handle_event(&mut self, event: Ev<W>, cli: &Wr::Cli)
        requires call_requires(old(self).filter, (&event,)),
        ensures
            final(self).filter == old(self).filter,
            !(event is Ok && event->Ok_0.value is Finished) ==> final(self).writer.log() == old(self).writer.log().push(event),
            (event is Ok && event->Ok_0.value is Finished) ==> final(self).events@.len() == 0,
    {
        if (self.filter)(&event) {
            self.events.push(ev_clone(&event));
        }

        let is_finished = is_finished_ev(&event);

        self.writer.handle_event(event, cli);

        if is_finished {
            for ev in mem_take_iter: core::mem::take(&mut self.events)
                invariant true,
            {
                self.writer.handle_event(ev, cli);
            }
        }
    }
}

}
fn main() {}
