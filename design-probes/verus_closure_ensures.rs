use vstd::prelude::*;
verus! {

#[derive(Clone, Copy, PartialEq, Eq)]
pub struct Retries { pub current: usize, pub left: usize }

impl Retries {
    pub fn next_try(self) -> (r: Option<Self>)
        requires self.current < usize::MAX,
        ensures
            r.is_some() <==> self.left > 0,
            r.is_some() ==> r.unwrap().left == self.left - 1 && r.unwrap().current == self.current + 1,
    {
        self.left
            .checked_sub(1)
            .map(|left| -> (q: Self) ensures q.left == left && q.current == self.current + 1 { Self { left, current: self.current + 1 } })
    }
}

} // verus!
fn main() {}
