Feature: probe
  @retry(1)
  Scenario: hook fails first
    Given a step
