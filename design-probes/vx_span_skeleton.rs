use syn::spanned::Spanned;
use syn::visit::Visit;
struct V<'a>{src:&'a str}
impl<'a,'ast> Visit<'ast> for V<'a>{
    fn visit_impl_item_fn(&mut self,f:&'ast syn::ImplItemFn){
        let r=f.span().byte_range(); let b=f.block.span().byte_range();
        println!("fn {} bytes {:?} body {:?} async={} line {}", f.sig.ident, r, b, f.sig.asyncness.is_some(), f.span().start().line);
        syn::visit::visit_impl_item_fn(self,f);
    }
    fn visit_expr_await(&mut self,e:&'ast syn::ExprAwait){ let _=e.await_token.span().byte_range(); syn::visit::visit_expr_await(self,e);}
    fn visit_expr_closure(&mut self,c:&'ast syn::ExprClosure){ println!("  closure at line {} : {}", c.span().start().line, &self.src[c.span().byte_range()].lines().next().unwrap()); syn::visit::visit_expr_closure(self,c);}
}
fn main(){
    let p=std::env::args().nth(1).unwrap();
    let src=std::fs::read_to_string(&p).unwrap();
    let file=syn::parse_file(&src).unwrap();
    V{src:&src}.visit_file(&file);
}
