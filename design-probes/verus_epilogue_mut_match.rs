#![allow(unused_imports, dead_code, unused_variables)]
use vstd::prelude::*;
use std::sync::Arc;
verus! {
#[verifier::external_body] pub struct Info { _p: () }
#[verifier::external] impl Clone for Info { fn clone(&self) -> Self { unimplemented!() } }
pub assume_specification[<Info as Clone>::clone](a: &Info) -> (r: Info) ensures r == *a;

pub enum ScenarioFinished { BeforeHookFailed(Info), StepPassed, StepSkipped, StepFailed(Info) }

enum ExecutionFailure<World> {
    BeforeHookPanicked { world: Option<World>, panic_info: Info },
    StepSkipped(Option<World>),
    StepPanicked { world: Option<World>, err: Info, is_background: bool },
}
impl<W> ExecutionFailure<W> {
    #[verifier::external_body]
    const fn take_world(&mut self) -> (r: Option<W>)
        ensures
            r == (match *old(self) { ExecutionFailure::BeforeHookPanicked{world, ..} => world, ExecutionFailure::StepSkipped(world) => world, ExecutionFailure::StepPanicked{world, ..} => world }),
            *final(self) == (match *old(self) {
                ExecutionFailure::BeforeHookPanicked{world, panic_info} => ExecutionFailure::BeforeHookPanicked{world: None, panic_info},
                ExecutionFailure::StepSkipped(world) => ExecutionFailure::StepSkipped(None),
                ExecutionFailure::StepPanicked{world, err, is_background} => ExecutionFailure::StepPanicked{world: None, err, is_background} }),
    {
        match self {
            Self::BeforeHookPanicked { world, .. }
            | Self::StepSkipped(world)
            | Self::StepPanicked { world, .. } => world.take(),
        }
    }
    fn get_scenario_finished_event(&self) -> (r: ScenarioFinished)
        ensures
            (*self is BeforeHookPanicked) ==> r == ScenarioFinished::BeforeHookFailed(self->BeforeHookPanicked_panic_info),
            (*self is StepSkipped) ==> r is StepSkipped,
            (*self is StepPanicked) ==> r == ScenarioFinished::StepFailed(self->StepPanicked_err),
    {
        use ScenarioFinished::{BeforeHookFailed, StepFailed, StepSkipped};
        match self {
            Self::BeforeHookPanicked { panic_info, .. } => BeforeHookFailed(panic_info.clone()),
            Self::StepSkipped(_) => StepSkipped,
            Self::StepPanicked { err, .. } => StepFailed(err.clone()),
        }
    }
}

fn slice_reason<W>(result: Result<Option<W>, ExecutionFailure<W>>) -> (out: (Option<W>, ScenarioFinished, bool))
    ensures
        (result is Ok) ==> out.1 is StepPassed && out.0 == result->Ok_0 && !out.2,
        (result is Err && result->Err_0 is StepSkipped) ==> out.1 is StepSkipped && !out.2,
        (result is Err && result->Err_0 is StepPanicked) ==> out.2,
{
    let mut result = result;
    let (world, scenario_finished_ev) = match &mut result {
        Ok(world) => {
            (world.take(), ScenarioFinished::StepPassed)
        }
        Err(exec_err) => (
            exec_err.take_world(),
            exec_err.get_scenario_finished_event(),
        ),
    };
    let scenario_failed = match &result {
        Ok(_) | Err(ExecutionFailure::StepSkipped(_)) => false,
        Err(
            ExecutionFailure::BeforeHookPanicked { .. }
            | ExecutionFailure::StepPanicked { .. },
        ) => true,
    };
    (world, scenario_finished_ev, scenario_failed)
}
}
fn main() {}
