#![allow(unused_imports, dead_code, unused_variables)]
use vstd::prelude::*;
verus! {
#[verifier::allow(undeclared_external_trait)]
pub assume_specification<T, P>[Option::<T>::filter](o: Option<T>, p: P) -> (r: Option<T>)
    where P: FnOnce(&T) -> bool + core::marker::Destruct, T: core::marker::Destruct,
    requires o.is_some() ==> call_requires(p, (&o.unwrap(),)),
    ensures
        o.is_none() ==> r.is_none(),
        o.is_some() ==> exists|b: bool| call_ensures(p, (&o.unwrap(),), b) && r == (if b { o } else { None }),
;

pub mod time { use vstd::prelude::*;
  #[verifier::external_body] #[derive(Clone, Copy)] pub struct Duration { _p: () }
  #[verifier::external_body] #[derive(Clone, Copy)] pub struct Instant { _p: () }
  pub uninterp spec fn nanos(d: Duration) -> nat;
  pub uninterp spec fn elapsed_spec(i: Instant) -> Duration;
  impl Duration {
    #[verifier::external_body]
    pub fn checked_sub(self, rhs: Duration) -> (r: Option<Duration>)
        ensures r.is_some() <==> nanos(self) >= nanos(rhs), r.is_some() ==> nanos(r.unwrap()) == nanos(self) - nanos(rhs) { unimplemented!() }
  }
  impl Instant {
    #[verifier::external_body]
    pub fn elapsed(&self) -> (r: Duration) ensures r == elapsed_spec(*self) { unimplemented!() }
  }
}
use time::{Duration, Instant};

#[derive(Clone, Copy)]
pub struct Retries { pub current: usize, pub left: usize }
impl Retries {
    pub fn next_try(self) -> (r: Option<Self>)
        requires self.current < usize::MAX,
        ensures r.is_some() <==> self.left > 0,
            r.is_some() ==> r.unwrap().left == self.left - 1 && r.unwrap().current == self.current + 1,
    {
        self.left
            .checked_sub(1)
            .map(|left| -> (q: Self) ensures q.left == left && q.current == self.current + 1 { Self { left, current: self.current + 1 } })
    }
}
#[derive(Clone, Copy)]
pub struct RetryOptions { pub retries: Retries, pub after: Option<Duration> }
impl RetryOptions {
    pub fn next_try(self) -> (r: Option<Self>)
        requires self.retries.current < usize::MAX,
        ensures r.is_some() <==> self.retries.left > 0,
          r.is_some() ==> r.unwrap().after == self.after && r.unwrap().retries.left == self.retries.left - 1 && r.unwrap().retries.current == self.retries.current + 1
    {
        self.retries
            .next_try()
            .map(|num| -> (q: Self) ensures q.retries == num && q.after == self.after { Self { retries: num, after: self.after } })
    }
}
#[derive(Clone, Copy)]
pub struct RetryOptionsWithDeadline { pub retries: Retries, pub after: Option<(Duration, Option<Instant>)> }
impl RetryOptionsWithDeadline {
    fn left_until_retry(&self) -> (r: Option<Duration>)
        ensures r.is_some() <==> (self.after.is_some() && self.after.unwrap().1.is_some()
                    && time::nanos(self.after.unwrap().0) >= time::nanos(time::elapsed_spec(self.after.unwrap().1.unwrap())))
    {
        let (dur, instant) = self.after?;
        dur.checked_sub(instant?.elapsed())
    }
}

// statement slice of run_scenario
fn slice_next_try(retries: Option<RetryOptions>, is_failed: bool) -> (next_try: Option<RetryOptions>)
    requires retries.is_some() ==> retries.unwrap().retries.current < usize::MAX,
    ensures next_try.is_some() <==> (is_failed && retries.is_some() && retries.unwrap().retries.left > 0)
{
    let next_try =
        retries.filter(|_r| -> (b: bool) ensures b == is_failed { is_failed }).and_then(RetryOptions::next_try);
    next_try
}
}
fn main() {}
