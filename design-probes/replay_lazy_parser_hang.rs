use std::{pin::Pin, task::{Context, Poll}};
use cucumber::{cli, given, parser, writer, Parser, World, WriterExt as _};
use futures::{stream, Stream, StreamExt as _};

#[derive(Debug, Default, World)]
struct W;
#[given("a step")]
fn a_step(_: &mut W) {}

struct PendOnce(bool);
impl std::future::Future for PendOnce {
    type Output = ();
    fn poll(mut self: Pin<&mut Self>, cx: &mut Context<'_>) -> Poll<()> {
        if self.0 { Poll::Ready(()) } else { self.0 = true; cx.waker().wake_by_ref(); Poll::Pending }
    }
}

struct Lazy;
impl Parser<&'static str> for Lazy {
    type Cli = cli::Empty;
    type Output = stream::LocalBoxStream<'static, parser::Result<cucumber::gherkin::Feature>>;
    fn parse(self, input: &'static str, _: cli::Empty) -> Self::Output {
        let inner = parser::Basic::new().parse(input, Default::default());
        stream::once(PendOnce(false)).map(move |_| ()).map(|_| None).chain(inner.map(Some)).filter_map(|x| async move { x }).boxed_local()
    }
}

#[tokio::test]
async fn lazy_parser_terminates() {
    eprintln!("starting");
    let _w = W::cucumber::<&str>()
        .with_parser(Lazy)
        .with_writer(writer::Basic::raw(std::io::sink(), writer::Coloring::Never, 0).summarized().assert_normalized())
        .with_default_cli()
        .run("tests/features/probe")
        .await;
    eprintln!("TERMINATED");
}
