#![allow(unused_imports, dead_code, unused_variables)]
use vstd::prelude::*;
use std::sync::Arc;
verus! {

// ---- prelude (dependency stand-ins) ----
pub mod gherkin {
    use vstd::prelude::*;
    #[verifier::external_body] pub struct Feature { _p: () }
    #[verifier::external_body] pub struct Rule { _p: () }
    #[verifier::external_body] pub struct Scenario { _p: () }
    #[verifier::external_body] pub struct Step { _p: () }
}
pub mod regex { use vstd::prelude::*; #[verifier::external_body] pub struct CaptureLocations { _p: () } }
pub mod step { use vstd::prelude::*;
    pub struct Location { pub line: u32, pub column: u32 }
    #[verifier::external_body] pub struct AmbiguousMatchError { _p: () } }
#[verifier::external_body] pub struct Info { _p: () }
#[verifier::external_body]
#[verifier::reject_recursive_types(T)]
pub struct Source<T> { _p: std::marker::PhantomData<T> }
#[verifier::external]
impl<T> std::ops::Deref for Source<T> { type Target = T; fn deref(&self) -> &T { unimplemented!() } }
pub uninterp spec fn source_val<T>(s: &Source<T>) -> &T;
pub assume_specification<T>[<Source<T> as std::ops::Deref>::deref](a: &Source<T>) -> (r: &T) ensures r == source_val(a);

pub uninterp spec fn deref_spec<T: std::ops::Deref>(t: &T) -> &T::Target;
pub assume_specification<T: std::ops::Deref>[Option::<T>::as_deref](o: &Option<T>) -> (r: Option<&T::Target>)
    ensures o.is_none() <==> r.is_none(), o.is_some() ==> r.unwrap() == deref_spec(&o->Some_0);
pub mod parser { use vstd::prelude::*;
    #[verifier::external_body] pub struct Error { _p: () }
    pub type Result<T> = std::result::Result<T, Error>; }

// ---- extracted crate types (event.rs) ----
pub struct Retries { pub current: usize, pub left: usize }
pub mod event {
use vstd::prelude::*;
use super::*;
pub use super::Retries;
pub enum Cucumber<World> {
    Started,
    Feature(Source<gherkin::Feature>, Feature<World>),
    ParsingFinished { features: usize, rules: usize, scenarios: usize, steps: usize, parser_errors: usize },
    Finished,
}
pub enum Feature<World> {
    Started,
    Rule(Source<gherkin::Rule>, Rule<World>),
    Scenario(Source<gherkin::Scenario>, RetryableScenario<World>),
    Finished,
}
pub enum Rule<World> {
    Started,
    Scenario(Source<gherkin::Scenario>, RetryableScenario<World>),
    Finished,
}
pub enum Step<World> {
    Started,
    Skipped,
    Passed(regex::CaptureLocations, Option<step::Location>),
    Failed(Option<regex::CaptureLocations>, Option<step::Location>, Option<Arc<World>>, StepError),
}
pub enum StepError { NotFound, AmbiguousMatch(step::AmbiguousMatchError), Panic(Info) }
pub enum HookType { Before, After }
pub enum Hook<World> { Started, Passed, Failed(Option<Arc<World>>, Info) }
pub enum Scenario<World> {
    Started,
    Hook(HookType, Hook<World>),
    Background(Source<gherkin::Step>, Step<World>),
    Step(Source<gherkin::Step>, Step<World>),
    Log(String),
    Finished,
}
pub struct RetryableScenario<World> { pub event: Scenario<World>, pub retries: Option<Retries> }

impl<World> Cucumber<World> {
    pub fn scenario(
        feat: Source<gherkin::Feature>,
        rule: Option<Source<gherkin::Rule>>,
        scenario: Source<gherkin::Scenario>,
        event: RetryableScenario<World>,
    ) -> (r: Self)
        ensures r == (match rule { Some(rr) => Cucumber::Feature(feat, Feature::Rule(rr, Rule::Scenario(scenario, event))), None => Cucumber::Feature(feat, Feature::Scenario(scenario, event)) })
    {
        Self::Feature(
            feat.into(),
            if let Some(r) = rule {
                Feature::Rule(r.into(), Rule::Scenario(scenario.into(), event))
            } else {
                Feature::Scenario(scenario.into(), event)
            },
        )
    }
}
impl<World> Scenario<World> {
    pub const fn with_retries(self, retries: Option<Retries>) -> (r: RetryableScenario<World>)
        ensures r == (RetryableScenario { event: self, retries })
    {
        RetryableScenario { event: self, retries }
    }
}
}
pub struct Event<T> { pub value: T }
impl<T> Event<T> {
    pub fn map<V, F: FnOnce(T) -> V>(self, f: F) -> (r: Event<V>)
        requires call_requires(f, (self.value,)),
        ensures call_ensures(f, (self.value,), r.value)
    {
        let (val, meta) = self.split();
        meta.insert(f(val))
    }
    pub fn split(self) -> (r: (T, Event<()>)) ensures r.0 == self.value { self.replace(()) }
    pub fn insert<V>(self, value: V) -> (r: Event<V>) ensures r.value == value { self.replace(value).1 }
    pub fn replace<V>(self, value: V) -> (r: (T, Event<V>)) ensures r.0 == self.value, r.1.value == value {
        let event = Event { value };
        (self.value, event)
    }
}

pub type Ev<W> = parser::Result<Event<event::Cucumber<W>>>;
pub trait Writer<World>: Sized {
    type Cli;
    spec fn log(&self) -> Seq<Ev<World>>;
    fn handle_event(&mut self, event: Ev<World>, cli: &Self::Cli)
        ensures final(self).log() == old(self).log().push(event);
}

pub struct FailOnSkipped<W, F> { writer: W, should_fail: F }

impl<Wr, F> FailOnSkipped<Wr, F>
{
    fn handle_event<W>(
        &mut self,
        event: parser::Result<Event<event::Cucumber<W>>>,
        cli: &Wr::Cli,
    )
    where
        F: Fn(&gherkin::Feature, Option<&gherkin::Rule>, &gherkin::Scenario) -> bool,
        Wr: Writer<W>,
    requires
        forall|f: &gherkin::Feature, r: Option<&gherkin::Rule>, s: &gherkin::Scenario| call_requires(old(self).should_fail, (f, r, s)),
    ensures
        final(self).writer.log().len() == old(self).writer.log().len() + 1,
    {
        use event::{
            Cucumber, Feature, RetryableScenario, Rule, Scenario, Step,
            StepError::NotFound,
        };

        let map_failed = |f: &Source<_>, r: &Option<_>, sc: &Source<_>| {
            if (self.should_fail)(f, r.as_deref(), sc) {
                Step::Failed(None, None, None, NotFound)
            } else {
                Step::Skipped
            }
        };
        let map_failed_bg =
            |f: Source<_>, r: Option<_>, sc: Source<_>, st: _, ret| {
                let ev = map_failed(&f, &r, &sc);
                let ev = Scenario::Background(st, ev).with_retries(ret);
                Cucumber::scenario(f, r, sc, ev)
            };
        let map_failed_step =
            |f: Source<_>, r: Option<_>, sc: Source<_>, st: _, ret| {
                let ev = map_failed(&f, &r, &sc);
                let ev = Scenario::Step(st, ev).with_retries(ret);
                Cucumber::scenario(f, r, sc, ev)
            };

        let event = event.map(|outer| {
            outer.map(|ev| match ev {
                Cucumber::Feature(
                    f,
                    Feature::Rule(
                        r,
                        Rule::Scenario(
                            sc,
                            RetryableScenario {
                                event: Scenario::Background(st, Step::Skipped),
                                retries,
                            },
                        ),
                    ),
                ) => map_failed_bg(f, Some(r), sc, st, retries),
                Cucumber::Feature(
                    f,
                    Feature::Scenario(
                        sc,
                        RetryableScenario {
                            event: Scenario::Background(st, Step::Skipped),
                            retries,
                        },
                    ),
                ) => map_failed_bg(f, None, sc, st, retries),
                Cucumber::Feature(
                    f,
                    Feature::Rule(
                        r,
                        Rule::Scenario(
                            sc,
                            RetryableScenario {
                                event: Scenario::Step(st, Step::Skipped),
                                retries,
                            },
                        ),
                    ),
                ) => map_failed_step(f, Some(r), sc, st, retries),
                Cucumber::Feature(
                    f,
                    Feature::Scenario(
                        sc,
                        RetryableScenario {
                            event: Scenario::Step(st, Step::Skipped),
                            retries,
                        },
                        ..,
                    ),
                ) => map_failed_step(f, None, sc, st, retries),
                Cucumber::Started
                | Cucumber::Feature(..)
                | Cucumber::ParsingFinished { .. }
                | Cucumber::Finished => ev,
            })
        });

        self.writer.handle_event(event, cli);
    }
}

}
fn main() {}
