#![allow(unused_imports, dead_code, unused_variables)]
use vstd::prelude::*;
verus! {
pub enum TagOperation { And(Box<TagOperation>, Box<TagOperation>), Or(Box<TagOperation>, Box<TagOperation>), Not(Box<TagOperation>), Tag(String) }

pub open spec fn sem(t: TagOperation, tags: spec_fn(Seq<char>) -> bool) -> bool decreases t {
    match t {
        TagOperation::And(l, r) => sem(*l, tags) && sem(*r, tags),
        TagOperation::Or(l, r) => sem(*l, tags) || sem(*r, tags),
        TagOperation::Not(x) => !sem(*x, tags),
        TagOperation::Tag(s) => tags(s@),
    }
}

fn ev(t: &TagOperation, tags: &Vec<String>) -> (r: bool)
    ensures r == sem(*t, (|s: Seq<char>| exists|i: int| 0 <= i < tags.len() && tags[i]@ == s))
    decreases *t
{
    match t {
        TagOperation::And(l, r) => ev(l, tags) & ev(r, tags),
        TagOperation::Or(l, r) => ev(l, tags) | ev(r, tags),
        TagOperation::Not(x) => !ev(x, tags),
        TagOperation::Tag(s) => { let mut i = 0; let mut f = false;
            while i < tags.len() invariant i <= tags.len(), f == exists|j: int| 0 <= j < i && tags[j]@ == s@ decreases tags.len() - i { if tags[i] == *s { f = true; } i += 1; } f }
    }
}
}
fn main() {}
