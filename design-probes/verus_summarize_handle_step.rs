#![allow(unused_imports, dead_code, unused_variables)]
use vstd::prelude::*;
use std::collections::HashMap;
use std::hash::{Hash, Hasher};
verus! {

// ---------- prelude: assumed specs for std combinators ----------
#[verifier::allow(undeclared_external_trait)]
pub assume_specification<T, P>[Option::<T>::filter](o: Option<T>, p: P) -> (r: Option<T>)
    where P: FnOnce(&T) -> bool + core::marker::Destruct, T: core::marker::Destruct,
    requires o.is_some() ==> call_requires(p, (&o.unwrap(),)),
    ensures
        o.is_none() ==> r.is_none(),
        o.is_some() ==> exists|b: bool| call_ensures(p, (&o.unwrap(),), b) && r == (if b { o } else { None }),
;
pub assume_specification<T, F: FnOnce(T) -> bool>[Option::<T>::is_some_and](o: Option<T>, f: F) -> (r: bool)
    requires o.is_some() ==> call_requires(f, (o.unwrap(),)),
    ensures o.is_none() ==> !r, o.is_some() ==> call_ensures(f, (o.unwrap(),), r),
;

// ---------- prelude: opaque stand-ins for dependency types ----------
pub mod gherkin {
    use vstd::prelude::*;
    #[verifier::external_body]
    pub struct Step { _p: () }
    pub struct Scenario { pub steps: Vec<Step> }
    #[verifier::external_body]
    pub struct Feature { _p: () }
    #[verifier::external_body]
    pub struct Rule { _p: () }
}
#[verifier::external]
impl PartialEq for gherkin::Step { fn eq(&self, o: &Self) -> bool { unimplemented!() } }
pub assume_specification[<gherkin::Step as PartialEq>::eq](a: &gherkin::Step, b: &gherkin::Step) -> (r: bool)
    ensures r == (a == b);

#[verifier::external_body]
#[verifier::reject_recursive_types(T)]
pub struct Source<T> { _p: std::marker::PhantomData<T> }

#[verifier::external]
impl<T> Clone for Source<T> { fn clone(&self) -> Self { unimplemented!() } }
pub assume_specification<T>[<Source<T> as Clone>::clone](a: &Source<T>) -> (r: Source<T>) ensures r == *a;
#[verifier::external]
impl<T> PartialEq for Source<T> { fn eq(&self, o: &Self) -> bool { unimplemented!() } }
#[verifier::external]
impl<T> Eq for Source<T> {}
#[verifier::external]
impl<T> Hash for Source<T> { fn hash<H: Hasher>(&self, state: &mut H) { unimplemented!() } }
#[verifier::external]
impl<T> std::ops::Deref for Source<T> { type Target = T; fn deref(&self) -> &T { unimplemented!() } }
pub uninterp spec fn source_val<T>(s: &Source<T>) -> &T;
pub assume_specification<T>[<Source<T> as std::ops::Deref>::deref](a: &Source<T>) -> (r: &T) ensures r == source_val(a);

pub type Path = (Source<gherkin::Feature>, Option<Source<gherkin::Rule>>, Source<gherkin::Scenario>);

#[verifier::external_body]
pub broadcast proof fn axiom_path_key_model()
    ensures #[trigger] vstd::std_specs::hash::obeys_key_model::<Path>() {}

// ---------- extracted (real) code ----------
#[derive(Clone, Copy)]
pub struct Retries { pub current: usize, pub left: usize }

pub enum StepError { NotFound, AmbiguousMatch, Panic }
#[verifier::external_body] pub struct CaptureLocations { _p: () }
#[derive(Clone, Copy)] pub struct Location { pub line: u32, pub column: u32 }
pub enum Step<World> { Started, Skipped, Passed(CaptureLocations, Option<Location>), Failed(Option<CaptureLocations>, Option<Location>, Option<std::sync::Arc<World>>, StepError) }

#[derive(Clone, Copy, Debug)]
enum Indicator { Failed, Skipped, Retried }

#[derive(Clone, Copy)]
pub struct Stats { pub passed: usize, pub skipped: usize, pub failed: usize, pub retried: usize }

pub struct Summarize<Writer> {
    writer: Writer,
    features: usize,
    rules: usize,
    scenarios: Stats,
    steps: Stats,
    parsing_errors: usize,
    failed_hooks: usize,
    handled_scenarios: HashMap<Path, Indicator>,
}

impl<Writer> Summarize<Writer> {
    fn handle_step<W>(
        &mut self,
        feature: Source<gherkin::Feature>,
        rule: Option<Source<gherkin::Rule>>,
        scenario: Source<gherkin::Scenario>,
        step: &gherkin::Step,
        ev: &Step<W>,
        retries: Option<Retries>,
    )
        requires
            old(self).steps.passed < usize::MAX, old(self).steps.skipped < usize::MAX, old(self).steps.failed < usize::MAX, old(self).steps.retried < usize::MAX,
            old(self).scenarios.skipped < usize::MAX, old(self).scenarios.failed < usize::MAX, old(self).scenarios.retried < usize::MAX,
        ensures
            (ev is Failed) ==> {
                let will_retry = retries.is_some() && retries.unwrap().left > 0 && !(ev->Failed_3 is NotFound);
                &&& final(self).steps.failed == old(self).steps.failed + (if will_retry {0usize} else {1usize})
                &&& final(self).steps.retried == old(self).steps.retried + (if will_retry {1usize} else {0usize})
            },
            (ev is Passed) ==> final(self).steps.passed == old(self).steps.passed + 1 && final(self).steps.failed == old(self).steps.failed,
    {
        broadcast use axiom_path_key_model;
        use Indicator::{Failed, Retried, Skipped};

        match ev {
            Step::Started => {}
            Step::Passed(..) => {
                self.steps.passed += 1;
                if scenario.steps.last().filter(|s: &&gherkin::Step| { *s == step }).is_some() {
                    let _ = self
                        .handled_scenarios
                        .remove(&(feature, rule, scenario));
                }
            }
            Step::Skipped => {
                self.steps.skipped += 1;
                self.scenarios.skipped += 1;
                let _ = self
                    .handled_scenarios
                    .insert((feature, rule, scenario), Skipped);
            }
            Step::Failed(_, _, _, err) => {
                if retries
                    .filter(|r: &Retries| -> (b: bool) ensures b == (r.left > 0 && !(err is NotFound)) {
                        r.left > 0 && !matches!(err, StepError::NotFound)
                    })
                    .is_some()
                {
                    self.steps.retried += 1;

                    let inserted_before = self
                        .handled_scenarios
                        .insert((feature, rule, scenario), Retried);

                    if inserted_before.is_none() {
                        self.scenarios.retried += 1;
                    }
                } else {
                    self.steps.failed += 1;
                    self.scenarios.failed += 1;

                    let _ = self
                        .handled_scenarios
                        .insert((feature, rule, scenario), Failed);
                }
            }
        }
    }
}

} // verus!
fn main() {}
