use super::*;

#[kani::proof]
fn take_world_skipped() {
    let w: Option<u8> = kani::any();
    let mut f: ExecutionFailure<u8> = ExecutionFailure::StepSkipped(w);
    let r = f.take_world();
    assert!(r == w);
    assert!(matches!(f, ExecutionFailure::StepSkipped(None)));
    std::mem::forget(f);
}
#[kani::proof]
fn take_world_before_hook() {
    let w: Option<u8> = kani::any();
    let info: Info = Arc::new(7u8);
    let mut f: ExecutionFailure<u8> = ExecutionFailure::BeforeHookPanicked { world: w, panic_info: info.clone(), meta: event::Metadata::new(()) };
    let r = f.take_world();
    assert!(r == w);
    match &f { ExecutionFailure::BeforeHookPanicked { world, panic_info, .. } => { assert!(world.is_none()); assert!(Arc::ptr_eq(panic_info, &info)); } _ => assert!(false) }
    std::mem::forget(f); std::mem::forget(info);
}
