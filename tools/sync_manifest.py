#!/usr/bin/env python3
"""Keeps MANIFEST.json in step with units/config.json: one check per property listed there (level
text = PARTIAL. Decided … Not decided …), engine.serves_properties, and drops claimed properties
from not_applicable.  Reasons of the remaining not_applicable entries are kept as they are."""
import json, os
ROOT = os.path.dirname(os.path.dirname(os.path.abspath(__file__)))
m = json.load(open(os.path.join(ROOT, "MANIFEST.json")))
c = json.load(open(os.path.join(ROOT, "units", "config.json")))
by_id = {x["property_id"]: x for x in m["checks"]}
tmpl = dict(next(iter(by_id.values())))
checks = []
for pid in sorted(c["properties"]):
    p = c["properties"][pid]
    x = dict(by_id.get(pid, tmpl))
    x["property_id"] = pid
    x["quick_cmd"] = "./check %s --tier quick" % pid
    x["thorough_cmd"] = "./check %s --tier thorough" % pid
    x["evidence_file"] = "/verif/evidence/%s.json" % pid
    x["replay_cmd_template"] = "./check %s --replay {path}" % pid
    lc = dict(x.get("level_claimed", {}))
    lc["category"] = "proof"
    head = p.get("level_head", "PARTIAL.")
    dec = list(p["decided"])
    if dec and dec[0].startswith("Decided "):
        dec[0] = dec[0][len("Decided "):]
    p = dict(p, decided=dec)
    lc["text"] = "%s Decided: %s Not decided: %s" % (head, "; ".join(s.rstrip(".") for s in p["decided"]) + ".", "; ".join(s.rstrip(".") for s in p["not_decided"]) + ".")
    lc["design_ref"] = "DESIGN.md 3 (%s)" % pid
    x["level_claimed"] = lc
    checks.append(x)
m["checks"] = checks
for e in m["engines"]:
    if e["name"] == "vx+verus":
        e["serves_properties"] = sorted(c["properties"])
m["not_applicable"] = [x for x in m["not_applicable"] if x["property_id"] not in c["properties"]]
json.dump(m, open(os.path.join(ROOT, "MANIFEST.json"), "w"), indent=1)
print("claimed:", " ".join(sorted(c["properties"])), "| not applicable:", " ".join(x["property_id"] for x in m["not_applicable"]))
