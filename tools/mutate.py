#!/usr/bin/env python3
"""Mutation self-test: every catalogue entry is a property-breaking edit of /repo/src that still
compiles; each must turn an obligation of the named property red (exit 1).  An entry that stays
green means a contract is too weak.  Works on a scratch copy of /repo/src (never on /repo)."""
import json, os, shutil, subprocess, sys, tempfile, concurrent.futures as cf
ROOT = os.path.dirname(os.path.dirname(os.path.abspath(__file__)))
CAT = json.load(open(os.path.join(ROOT, "mutations.json")))

def run_one(m):
    d = tempfile.mkdtemp(prefix="vxmut_", dir="/tmp")
    try:
        shutil.copytree(os.environ.get("VERIF_MUT_SRC", "/repo/src"), os.path.join(d, "src"))
        p = os.path.join(d, m["file"])
        s = open(p).read()
        if s.count(m["old"]) < 1:
            return (m, "ANCHOR-LOST", "")
        s = s.replace(m["old"], m["new"], 1)
        open(p, "w").write(s)
        env = dict(os.environ, VERIF_NO_MUTATION="1", VERIF_REPO=d, VERIF_BUILD=os.path.join(d, "build"), VERIF_REPLAYS=os.path.join(d, "replays"), VERIF_EVIDENCE_DIR=os.path.join(d, "evidence"))
        r = subprocess.run([os.path.join(ROOT, "check"), m["property"], "--tier", m.get("tier", "quick")], env=env, stdout=subprocess.PIPE, stderr=subprocess.PIPE, text=True)
        viol = [l for l in r.stdout.split("\n") if l.startswith("VIOLATION")]
        if r.returncode == 1 and viol:
            return (m, "CAUGHT", viol[0].split("obligation=")[-1])
        return (m, "MISSED(exit=%d)" % r.returncode, (r.stdout + r.stderr)[-400:])
    finally:
        shutil.rmtree(d, ignore_errors=True)

def main():
    only = sys.argv[1:]
    ms = [m for m in CAT if not only or m["id"] in only or m["property"] in only]
    bad = 0
    with cf.ThreadPoolExecutor(max_workers=int(os.environ.get("VERIF_MUT_JOBS", "4"))) as ex:
        for (m, status, info) in ex.map(run_one, ms):
            print("%-8s %-4s %-40s %s" % (status, m["property"], m["id"], info.replace("\n", " ")[:200]))
            if status != "CAUGHT":
                bad += 1
    print("%d/%d mutations caught" % (len(ms) - bad, len(ms)))
    sys.exit(1 if bad else 0)

if __name__ == "__main__":
    main()
