#!/usr/bin/env python3
"""Re-runs every seeded change (seeded/<id>/patch.diff) through the checks of the properties named
in its meta.json and prints one line per (seed, property): exit code and first violated obligation.
Breaking seeds should give exit 1 (or 2 where recorded as undecided), benign ones never exit 1."""
import json, os, subprocess, sys
ROOT = os.path.dirname(os.path.dirname(os.path.abspath(__file__)))
only = sys.argv[1:]
bad = 0
for sd in sorted(os.listdir(os.path.join(ROOT, "seeded"))):
    d = os.path.join(ROOT, "seeded", sd)
    if only and not any(o in sd for o in only):
        continue
    if not os.path.exists(os.path.join(d, "patch.diff")):
        continue
    meta = {}
    if os.path.exists(os.path.join(d, "meta.json")):
        meta = json.load(open(os.path.join(d, "meta.json")))
    benign = sd.startswith("benign")
    props = meta.get("properties") or ([meta["property"]] if meta.get("property") else [])
    if benign:
        props = sorted(json.load(open(os.path.join(ROOT, "units", "config.json")))["properties"])
    for p in props:
        r = subprocess.run([os.path.join(ROOT, "tools", "run_seed.sh"), sd, p], stdout=subprocess.PIPE, stderr=subprocess.STDOUT, text=True)
        lines = r.stdout.strip().split("\n")
        ex = [l for l in lines if l.startswith("exit=")]
        viol = [l.split("obligation=")[-1].split()[0] for l in lines if l.startswith("VIOLATION")]
        code = ex[-1] if ex else "exit=?"
        flag = ""
        if benign and code == "exit=1":
            flag = "  <== FALSE ALARM"
            bad += 1
        # a seed recorded as caught must still be caught by the first property listed for it
        oc = (meta.get("outcome") or "").lower()
        recorded_caught = "not caught" not in oc and (oc.startswith("caught") or "caught after" in oc or ", caught" in oc or "; caught" in oc or " caught by" in oc)
        if not benign and recorded_caught and p == props[0] and code != "exit=1":
            flag = "  <== REGRESSION (recorded as caught)"
            bad += 1
        print("%-58s %-4s %-7s %s%s" % (sd, p, code, (viol[0] if viol else ""), flag), flush=True)
sys.exit(1 if bad else 0)
