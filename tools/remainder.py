#!/usr/bin/env python3
"""The PINNED REMAINDER of sliced functions.

A function of /repo that is under contract only in pieces (E10 statement slices, E11 hoisted closures) has text
that lies in no piece: glue statements between slices, conditions around sliced blocks, argument lists.  Nothing
is proved about that text, yet the property depends on it.  This module computes, for every such function, its
source text with every piece cut out (comments and white space removed) over ALL units; units/baseline.json
records it for the unchanged tree (tools/record_baseline.py) and the driver reports a property whose slices
live in a function with a different remainder as UNDECIDED (exit 2) when nothing is refuted: a change outside
every contract is never called verified.

usage: remainder.py [repo]      prints the remainders (for reading)"""
import hashlib, json, os, subprocess, sys, tempfile
ROOT = os.path.dirname(os.path.dirname(os.path.abspath(__file__)))
VX = os.path.join(ROOT, "vx", "target", "release", "vx")


def strip(text):
    """comments and white space removed; string / char literals kept verbatim"""
    out = []
    i, n = 0, len(text)
    while i < n:
        c = text[i]
        if text.startswith("//", i):
            j = text.find("\n", i)
            i = n if j < 0 else j
        elif text.startswith("/*", i):
            depth, i = 1, i + 2
            while i < n and depth:
                if text.startswith("/*", i):
                    depth += 1; i += 2
                elif text.startswith("*/", i):
                    depth -= 1; i += 2
                else:
                    i += 1
        elif c == '"':
            j = i + 1
            while j < n and text[j] != '"':
                j += 2 if text[j] == "\\" else 1
            out.append(text[i:j + 1]); i = j + 1
        elif c == "'" and i + 2 < n and (text[i + 2] == "'" or (text[i + 1] == "\\" and "'" in text[i + 2:i + 8])):
            j = text.index("'", i + 2 if text[i + 1] != "\\" else i + 3)
            out.append(text[i:j + 1]); i = j + 1
        elif c.isspace():
            # white space only separates tokens: keep one blank between two word characters
            if out and i + 1 < n and (out[-1][-1:].isalnum() or out[-1][-1:] == "_"):
                k = i
                while k < n and text[k].isspace():
                    k += 1
                if k < n and (text[k].isalnum() or text[k] == "_"):
                    out.append(" ")
                i = k
            else:
                i += 1
        else:
            out.append(c); i += 1
    return "".join(out)


def extract(template, repo, out, mp):
    """vx with the driver's fallbacks: another contract variant (`@@alt`) for a directive whose anchor is
    lost, else the directive is stubbed (it then covers nothing).  -> (ok, stubbed keys)"""
    import re
    stubs, variants, exhausted = [], {}, set()
    for _round in range(24):
        cmd = [VX, template, "--repo", repo, "--out", out, "--map", mp]
        if stubs:
            cmd += ["--stub", "%%".join(stubs)]
        if variants:
            cmd += ["--variant", "%%".join("%s=%d" % kv for kv in sorted(variants.items()))]
        r = subprocess.run(cmd, capture_output=True, text=True)
        if r.returncode == 0:
            return True, stubs
        m = re.search(r"\[key=(.*?)\]:", r.stderr)
        if not m or m.group(1) in stubs:
            return False, stubs
        key = m.group(1)
        if "NO-SUCH-VARIANT" in r.stderr:
            variants.pop(key, None)
            exhausted.add(key)
        elif key not in exhausted:
            variants[key] = variants.get(key, 0) + 1
            continue
        stubs.append(key)
    return False, stubs


def remainders(repo, units_cfg, workdir=None):
    """-> ({fn_key: remainder text}, {fn_key: [units]}, [units whose extraction failed], {fn_key: pieces that could not be placed})"""
    cover, whole, spans, by_unit, failed, lost = {}, set(), {}, {}, [], {}
    tmp = workdir or tempfile.mkdtemp(prefix="vxrem_")
    try:
        for u, c in sorted(units_cfg.items()):
            mp = os.path.join(tmp, "rem_%s.json" % u)
            ok, stubs = extract(os.path.join(ROOT, c["template"]), repo, os.path.join(tmp, "rem_%s.rs" % u), mp)
            if not ok:
                failed.append(u)
                continue
            for f in json.load(open(mp))["functions"]:
                key = "%s::%s" % (f["file"], f["selector"])
                if f.get("stubbed") is True and "fn_bytes" not in f:
                    lost[key] = lost.get(key, 0) + 1
                    by_unit.setdefault(key, set()).add(u)
                    continue
                if "fn_bytes" not in f:
                    continue
                spans[key] = (f["file"], f["fn_bytes"])
                by_unit.setdefault(key, set()).add(u)
                # text the piece REPLACES by declared text (E24 statements, E25 closures) is not covered by it
                # (another piece may cover it: a hoisted closure, a slice of the replaced statement's block)
                holes = sorted(tuple(h) for h in f.get("dropped_bytes", []))
                if not holes and f["src_bytes"][0] <= f["fn_bytes"][0] and f["src_bytes"][1] >= f["fn_bytes"][1]:
                    whole.add(key)
                else:
                    pos = f["src_bytes"][0]
                    for a, b in holes:
                        if a > pos:
                            cover.setdefault(key, []).append((pos, a))
                        pos = max(pos, b)
                    if f["src_bytes"][1] > pos:
                        cover.setdefault(key, []).append((pos, f["src_bytes"][1]))
    finally:
        if workdir is None:
            import shutil; shutil.rmtree(tmp, ignore_errors=True)
    out = {}
    for key, ranges in cover.items():
        if key in whole:
            continue
        fname, (lo, hi) = spans[key]
        src = open(os.path.join(repo, fname), "rb").read()
        pieces, pos = [], lo
        for a, b in sorted(ranges):
            if a > pos:
                pieces.append(src[pos:a].decode("utf-8", "replace"))
            pieces.append(" § ")  # a cut
            pos = max(pos, b)
        pieces.append(src[pos:hi].decode("utf-8", "replace"))
        txt = strip("".join(pieces))
        while "§§" in txt:
            txt = txt.replace("§§", "§")
        out[key] = txt
    return out, {k: sorted(v) for k, v in by_unit.items()}, failed, lost


def same(recorded, now, lost=0):
    """the recorded remainder against the current one.  With every piece placed they must be equal; when
    `lost` pieces of the function could not be placed (their obligations are undecided already), the text of
    those pieces shows up where a cut was: the recorded segments must then still follow each other in order,
    with at most `lost` cuts replaced by other text."""
    if now is None:
        return False
    if recorded == now:
        return True
    if lost <= 0:
        return False
    segs = recorded.split("§")
    pos, fills = 0, 0
    for i, sg in enumerate(segs):
        if i == 0:
            if not now.startswith(sg):
                return False
            pos = len(sg)
            continue
        j = now.find(sg, pos) if sg else (len(now) if i == len(segs) - 1 else pos)
        if i == len(segs) - 1:
            if not now.endswith(sg) or len(now) - len(sg) < pos:
                return False
            j = len(now) - len(sg)
        if j < 0:
            return False
        if now[pos:j] != "§":
            fills += 1
        pos = j + len(sg)
    return fills <= lost


def item_text(repo, fname, item):
    """normalized text of `struct/enum <item>` of a source file, with the attributes and doc comments directly
    above it (doc comments are comments: removed) and everything up to its closing brace"""
    import re
    src = open(os.path.join(repo, fname), encoding="utf-8", errors="replace").read()
    if item.startswith("impl "):
        # `impl <Trait> for <Type>`: the NAMES of the methods the impl block defines (a trait's provided methods the
        # block does not list keep their default body: a contract on the default then speaks for this type too)
        _, tr, _, ty = (item.split() + ["", "", ""])[:4]
        m = re.search(r"^impl\b[^{;]*\b%s\b[^{;]*\bfor\s+%s\b[^{;]*\{" % (re.escape(tr), re.escape(ty)), src, re.M)
        if not m:
            return None
        i = m.end() - 1
        d, j = 0, i
        while True:
            if src[j] == "{":
                d += 1
            elif src[j] == "}":
                d -= 1
                if d == 0:
                    break
            j += 1
        body = strip(src[i:j + 1])
        # method names at nesting depth 1 of the block
        names, d, k = [], 0, 0
        for mm in re.finditer(r"[{}]|\bfn ([A-Za-z_0-9]+)", body):
            if mm.group(0) == "{":
                d += 1
            elif mm.group(0) == "}":
                d -= 1
            elif d == 1:
                names.append(mm.group(1))
        return "impl %s for %s{%s}" % (tr, ty, ";".join(names))
    m = re.search(r"^[ \t]*(pub(\([a-z]+\))? )?(struct|enum) %s\b" % re.escape(item), src, re.M)
    if not m:
        return None
    lines = src[:m.start()].split("\n")
    k = len(lines) - 1  # lines[k] is the (empty) start of the item's own line
    j = k
    depth = 0
    while j > 0:
        t = lines[j - 1].strip()
        depth += t.count(")") + t.count("]") - t.count("(") - t.count("[")
        if t.startswith("#[") or t.startswith("///") or t.startswith("//") or depth > 0 or (t and depth == 0 and lines[j - 1].startswith(" ") and not t.endswith(";") and not t.endswith("}") and "#[" in "".join(lines[max(0, j - 8):j])):
            j -= 1
            if t.startswith("#[") and depth <= 0:
                depth = 0
            continue
        break
    start = len("\n".join(lines[:j])) + (1 if j else 0)
    i = src.index("{", m.end())
    d = 0
    while True:
        if src[i] == "{":
            d += 1
        elif src[i] == "}":
            d -= 1
            if d == 0:
                break
        i += 1
    return strip(src[start:i + 1])


def digest(t):
    return hashlib.sha256(t.encode()).hexdigest()[:16]


if __name__ == "__main__":
    cfg = json.load(open(os.path.join(ROOT, "units", "config.json")))
    rem, units, failed, lost = remainders(sys.argv[1] if len(sys.argv) > 1 else "/repo", cfg["units"])
    for k in sorted(rem):
        print("==", k, "(units: %s)" % ", ".join(units[k]), digest(rem[k]), len(rem[k]), "chars")
        print(rem[k])
    if failed:
        print("extraction failed:", failed)
    if lost:
        print("pieces that could not be placed:", lost)
