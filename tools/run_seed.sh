#!/bin/bash
# run_seed.sh <seed id> <property> [tier]: applies /verif/seeded/<id>/patch.diff to /repo, runs the
# check, and ALWAYS restores /repo.  Output is kept in /verif/seeded/<id>/check_<property>.txt
ID="$1"; P="$2"; TIER="${3:-quick}"
D=/verif/seeded/$ID
[ -f "$D/patch.diff" ] || { echo "no such seed $ID"; exit 3; }
cd /repo || exit 3
[ -z "$(git status --porcelain -- src codegen tests)" ] || { echo "/repo is not clean"; exit 3; }
trap 'git -C /repo checkout -- . ; git -C /repo clean -fdq -- src codegen >/dev/null 2>&1' EXIT
git apply "$D/patch.diff" || exit 3
cd /verif
T=$(mktemp -d /tmp/vxseed_XXXX)
VERIF_EVIDENCE_DIR=$T/ev VERIF_REPLAYS=$D/replays VERIF_BUILD=$T/build ./check "$P" --tier "$TIER" > "$D/check_$P.txt" 2>&1
RC=$?
echo "exit=$RC" >> "$D/check_$P.txt"
rm -rf "$T"
grep -E "^(VIOLATION|KNOWN|C[0-9]+:|UNDECIDED|exit=)" "$D/check_$P.txt" | cut -c1-260
exit 0
