#!/bin/bash
# confirm_seed.sh <agent SEED dir> <seed id>   e.g. /tmp/seed/C09/SEED C09-ambiguous-drops-world
# Confirms in a FRESH scratch worktree of /repo: patch applies; demo fails with it; existing suite
# passes with it; demo passes without it.  Stores the seed under /verif/seeded/<id>/.
set -u
SRC="$1"; ID="$2"
WT=/tmp/confirm/$ID
LOG=/tmp/confirm/$ID.log
mkdir -p /tmp/confirm
rm -rf "$WT"; git -C /repo worktree prune
git -C /repo worktree add -q --detach "$WT" HEAD || exit 3
cp -r /repo/target "$WT/target"
cd "$WT"
{
echo "== apply patch"; git apply "$SRC/patch.diff" || { echo "PATCH-DOES-NOT-APPLY"; exit 3; }
# demo files: everything under SEED/tests -> tests/
if [ -d "$SRC/features" ]; then mkdir -p tests/features; cp -r "$SRC/features/." tests/features/; fi
if [ -d "$SRC/tests" ]; then cp -r "$SRC/tests/." tests/; else for f in "$SRC"/*.rs; do [ -e "$f" ] && cp "$f" tests/; done; for f in "$SRC"/*.feature; do [ -e "$f" ] && mkdir -p tests/features/seed_demo && cp "$f" tests/features/seed_demo/; done; fi
DEMOS=$(cd tests && ls seed_demo*.rs 2>/dev/null | sed 's/\.rs$//')
echo "demos: $DEMOS"
WITH=0
for d in $DEMOS; do echo "== demo $d WITH change"; RUST_BACKTRACE=0 timeout 1200 cargo test --offline ${DEMO_FLAGS:-} --test $d 2>&1 | tail -15; [ ${PIPESTATUS[0]} -ne 0 ] && WITH=1; done
echo "DEMO_WITH_CHANGE_FAILS=$WITH"
echo "== existing suite WITH change (demo moved aside)"
mkdir -p /tmp/confirm/$ID.aside; for d in $DEMOS; do mv tests/$d.rs /tmp/confirm/$ID.aside/; done
timeout 3000 cargo test --workspace --no-fail-fast --offline > /tmp/confirm/$ID.suite 2>&1
SUITE_RC=$?
grep -E "^test result" /tmp/confirm/$ID.suite | tail -40
if [ $SUITE_RC -eq 0 ] && ! grep -qE "^test result: FAILED" /tmp/confirm/$ID.suite; then echo "SUITE_PASSES_WITH_CHANGE=1 ($(grep -cE '^test result: ok' /tmp/confirm/$ID.suite) test binaries ok, cargo exit 0)"; else echo "SUITE_PASSES_WITH_CHANGE=0 (cargo exit $SUITE_RC)"; fi
for d in $DEMOS; do mv /tmp/confirm/$ID.aside/$d.rs tests/; done
echo "== revert src"; git checkout -- src codegen 2>/dev/null; git checkout -- src
WITHOUT=1
for d in $DEMOS; do echo "== demo $d WITHOUT change"; RUST_BACKTRACE=0 timeout 1200 cargo test --offline ${DEMO_FLAGS:-} --test $d 2>&1 | tail -8; [ ${PIPESTATUS[0]} -ne 0 ] && WITHOUT=0; done
echo "DEMO_WITHOUT_CHANGE_PASSES=$WITHOUT"
} > "$LOG" 2>&1
mkdir -p /verif/seeded/$ID
cp "$SRC/patch.diff" /verif/seeded/$ID/patch.diff
[ -d "$SRC/tests" ] && cp -r "$SRC/tests" /verif/seeded/$ID/demo
[ -d "$SRC/tests" ] || { mkdir -p /verif/seeded/$ID/demo; cp "$SRC"/*.rs /verif/seeded/$ID/demo/ 2>/dev/null; [ -d "$SRC/features" ] && cp -r "$SRC/features" /verif/seeded/$ID/demo/; }
cp "$SRC"/demo.txt /verif/seeded/$ID/ 2>/dev/null
cp "$SRC"/meta.json /verif/seeded/$ID/agent_meta.json 2>/dev/null
grep -E "^(DEMO_|SUITE_|PATCH)" "$LOG" > /verif/seeded/$ID/confirmation.txt
cd /; git -C /repo worktree remove --force "$WT"; rm -rf /tmp/confirm/$ID.aside
cat /verif/seeded/$ID/confirmation.txt
