#!/bin/bash
# try_patch.sh <patch.diff> <property>...: applies the patch to a SCRATCH copy of /repo's HEAD (never to /repo) and
# runs the quick checks of the given properties on it; prints the summary lines.  The copy is removed afterwards.
PATCH="$1"; shift
T=$(mktemp -d /tmp/vxtry_XXXX)
git -C /repo archive HEAD src codegen | tar -x -C "$T" || exit 3
( cd "$T" && git init -q . && git apply "$PATCH" ) || { echo "PATCH-DOES-NOT-APPLY"; rm -rf "$T"; exit 3; }
for P in "$@"; do
  VERIF_REPO=$T VERIF_BUILD=$T/b_$P VERIF_EVIDENCE_DIR=$T/ev VERIF_REPLAYS=$T/rp ${VERIF_CHECK:-/verif/check} "$P" > "$T/$P.out" 2>&1
  echo "$P exit=$?"
  grep -E "^(VIOLATION|UNDECIDED|KNOWN|C[0-9]+:)" "$T/$P.out" | cut -c1-330
done
rm -rf "$T"
