#!/bin/bash
# all_checks.sh [repo]: runs the quick check of every claimed property (4 at a time) on /repo (or the given
# tree) with scratch build / evidence directories, prints one line per property; exit 1 unless all pass.
REPO="${1:-/repo}"
T=$(mktemp -d /tmp/vxall_XXXX)
PIDS=$(python3 -c "import json;print(' '.join(sorted(json.load(open('/verif/units/config.json'))['properties'])))")
# on /repo itself the evidence files of /verif/evidence are rewritten (so that what gets committed is fresh);
# on any other tree they go to the scratch directory
if [ "$REPO" = "/repo" ]; then EV=/verif/evidence; else EV=$T/ev; fi
printf '%s\n' $PIDS | xargs -P 4 -I{} sh -c "VERIF_REPO=$REPO VERIF_BUILD=$T/b_{} VERIF_EVIDENCE_DIR=$EV VERIF_REPLAYS=$T/rp /verif/check {} > $T/{}.out 2>&1; echo \"{} exit=\$? \$(tail -1 $T/{}.out)\""  | sort > $T/summary
cat $T/summary
BAD=$(grep -vc "exit=0" $T/summary)
rm -rf "$T"
[ "$BAD" = "0" ]
