#!/bin/bash
# kf_replay.sh <out.json>: replays the recorded known findings against the REAL crate (scratch copy
# of /repo's working tree).  Each test of known-findings/replay_summarize.rs asserts what the
# property statement demands, so it FAILS while the defect is open.
REPO=${VERIF_REPO:-/repo}
OUT=${1:-/dev/stdout}
SCR=$(mktemp -d /tmp/vxkf_XXXXXX)
trap 'rm -rf "$SCR"' EXIT
rsync -a --exclude .git --exclude book "$REPO"/ "$SCR"/ 2>/dev/null
for f in Cargo.toml Cargo.lock codegen README.md tests; do [ -e "$SCR/$f" ] || cp -r /repo/$f "$SCR/$f"; done
[ -d "$SCR/target" ] || cp -r /repo/target "$SCR/target" 2>/dev/null
cp /verif/known-findings/replay_summarize.rs "$SCR/tests/vx_kf.rs"
mkdir -p "$SCR/tests/features"; rm -rf "$SCR/tests/features/vx_kf"; cp -r /verif/known-findings/features "$SCR/tests/features/vx_kf"
cd "$SCR"
RUST_BACKTRACE=0 CARGO_NET_OFFLINE=true timeout 2400 cargo test --offline --test vx_kf -- --test-threads 1 > kf.log 2>&1
python3 - "$OUT" <<'PY'
import re, sys, json
log = open('kf.log', errors='replace').read()
rows = []
for m in re.finditer(r"^test (\w+) \.\.\. (\w+)", log, re.M):
    rows.append(dict(test=m.group(1), result=m.group(2), defect_reproduced=(m.group(2) == "FAILED")))
lines = [l for l in log.split("\n") if l.startswith("KF")]
json.dump(dict(tests=rows, observed=lines, log_tail=log[-1500:] if not rows else ""), open(sys.argv[1], "w"), indent=1)
for r in rows: print(r["test"], r["result"])
PY
