#!/bin/bash
# kani_cross.sh <out.json>: Kani cross-proofs on the compiled real code (thorough tier).
# Copies /repo's working tree to a scratch dir, appends `#[cfg(kani)] mod verif_kani;` to the
# anchored module files OF THE COPY, runs every harness, removes the copy.  Prints one line per
# harness: "<harness> SUCCESSFUL|FAILED|UNDECIDED <seconds>".
REPO=${VERIF_REPO:-/repo}
OUT=${1:-/dev/stdout}
SCR=$(mktemp -d /tmp/vxkani_XXXXXX)
trap 'rm -rf "$SCR"' EXIT
rsync -a --exclude target --exclude .git --exclude book "$REPO"/ "$SCR"/ 2>/dev/null || cp -r "$REPO"/. "$SCR"/
# scratch copies made by tools/mutate.py contain only src/: take the rest from /repo
for f in Cargo.toml Cargo.lock codegen README.md tests; do [ -e "$SCR/$f" ] || cp -r /repo/$f "$SCR/$f"; done
printf '\n#[cfg(kani)]\n#[path = "/verif/kani/runner_basic.rs"]\nmod verif_kani;\n' >> "$SCR/src/runner/basic.rs"
printf '\n#[cfg(kani)]\n#[path = "/verif/kani/event.rs"]\nmod verif_kani;\n' >> "$SCR/src/event.rs"
mkdir -p "$SCR/.cargo"; printf '[net]\noffline = true\n' > "$SCR/.cargo/config.toml"
cd "$SCR"
HARNESSES="take_world_skipped take_world_before_hook take_world_step_panicked retry_options_next_try_contract retries_next_try_contract retries_initial_contract"
ARGS=""; for h in $HARNESSES; do ARGS="$ARGS --harness $h"; done
T0=$(date +%s)
CARGO_NET_OFFLINE=true timeout 1500 cargo kani --lib $ARGS > kani.log 2>&1
RC=$?
T1=$(date +%s)
python3 - "$OUT" "$RC" "$((T1-T0))" $HARNESSES <<'PY'
import re, sys, json, os, subprocess, shutil
out, rc, secs, hs = sys.argv[1], int(sys.argv[2]), int(sys.argv[3]), sys.argv[4:]
log = open('kani.log', errors='replace').read()
res = {}
for m in re.finditer(r"Checking harness ([\w:]+)\.\.\.(.*?)VERIFICATION:- (\w+)", log, re.S):
    name = m.group(1).split("::")[-1]
    t = re.search(r"Verification Time: ([\d.]+)s", log[m.end():m.end()+300])
    fc = re.findall(r"Failed Checks: ([^\n]*)", m.group(2))
    res[name] = dict(status=m.group(3), time_s=float(t.group(1)) if t else None, detail="; ".join(fc))
rows = []
for h in hs:
    r = res.get(h, dict(status="UNDECIDED", time_s=None))
    row = dict(harness=h, **r)
    tpl = "/verif/kani/replay/%s.rs.tpl" % h
    if r["status"] == "FAILED" and os.path.exists(tpl):
        # counterexample: concrete values from CBMC, replayed as a plain #[test] on the real crate
        try:
            p = subprocess.run("CARGO_NET_OFFLINE=true timeout 900 cargo kani --lib --harness %s -Z concrete-playback --concrete-playback=print" % h,
                               shell=True, stdout=subprocess.PIPE, stderr=subprocess.STDOUT, text=True)
            vecs = re.findall(r"vec!\[([0-9, ]*)\],", p.stdout.split("concrete_vals")[1]) if "concrete_vals" in p.stdout else []
            vals = [int.from_bytes(bytes(int(x) for x in v.split(",") if x.strip()), "little") for v in vecs]
            src = open(tpl).read()
            for k, v in enumerate(vals):
                src = src.replace("{v%d}" % k, str(v))
            open("tests/vx_replay.rs", "w").write(src)
            if os.path.isdir("/repo/target") and not os.path.isdir("target/debug"):
                shutil.copytree("/repo/target", "target", dirs_exist_ok=True)
            t = subprocess.run("RUST_BACKTRACE=0 timeout 1500 cargo test --offline --test vx_replay 2>&1 | tail -25", shell=True, stdout=subprocess.PIPE, text=True)
            failed = "test result: FAILED" in t.stdout or "panicked" in t.stdout
            row["counterexample"] = dict(values=vals, replay_test=src, replay_output=t.stdout[-1800:], failing_input_reproduced=failed)
        except Exception as e:
            row["counterexample"] = dict(error=str(e))
    rows.append(row)
    print(h, r["status"], r["time_s"])
tail = log[-3000:] if any(r["status"] not in ("SUCCESSFUL", "FAILED") for r in rows) else ""
json.dump(dict(cargo_kani_exit=rc, wall_s=secs, harnesses=rows, log_tail=tail, checker="cargo kani (Kani 0.68.0 / CBMC 6.11), loop-free full-domain harnesses, no unwinding bound"), open(out, "w"), indent=1)
PY
