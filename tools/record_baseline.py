#!/usr/bin/env python3
"""Records, per unit and extracted function, how many closures have no header and how many loops have no
invariants on the UNCHANGED tree (units/baseline.json).  The driver treats a failing obligation in a function
that has more of either than recorded here as undecided (a new closure / loop proves nothing)."""
import json, os, subprocess, sys, tempfile
ROOT = os.path.dirname(os.path.dirname(os.path.abspath(__file__)))
cfg = json.load(open(os.path.join(ROOT, "units", "config.json")))
repo = sys.argv[1] if len(sys.argv) > 1 else "/repo"
out = {}
params = {}
with tempfile.TemporaryDirectory() as d:
    for u, c in sorted(cfg["units"].items()):
        mp = os.path.join(d, u + ".json")
        r = subprocess.run([os.path.join(ROOT, "vx", "target", "release", "vx"), os.path.join(ROOT, c["template"]), "--repo", repo, "--out", os.path.join(d, u + ".rs"), "--map", mp], capture_output=True, text=True)
        if r.returncode != 0:
            print("vx failed for", u, r.stderr[-300:]); sys.exit(1)
        out[u] = {}
        params.setdefault(u, {})
        for f in json.load(open(mp))["functions"]:
            if f.get("params") and f.get("key"):
                params[u][f["key"]] = f["params"]
            k = f.get("key") or f.get("name")
            cur = out[u].get(k, [0, 0])
            out[u][k] = [max(cur[0], f.get("closures_unspecified", 0)), max(cur[1], f.get("loops_unspecified", 0))]
sys.path.insert(0, os.path.join(ROOT, "tools"))
import remainder
rem, rem_units, failed, lost = remainder.remainders(repo, cfg["units"])
assert not failed and not lost, (failed, lost)
out["__remainder__"] = rem
pins = {}
for pid, pc in cfg["properties"].items():
    for it in pc.get("pinned_items", []):
        t = remainder.item_text(repo, it["file"], it["item"])
        assert t is not None, it
        pins["%s::%s" % (it["file"], it["item"])] = t
out["__pinned_items__"] = pins
out["__params__"] = params
out["__remainder_units__"] = {k: v for k, v in rem_units.items() if k in rem}
json.dump(out, open(os.path.join(ROOT, "units", "baseline.json"), "w"), indent=0, sort_keys=True)
print("recorded", sum(len(v) for k, v in out.items() if not k.startswith("__")), "functions,", len(rem), "pinned remainders")
