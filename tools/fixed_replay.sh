#!/bin/bash
# fixed_replay.sh <out.json>: regression replays of findings that were FIXED in /repo, run against
# the REAL crate (scratch copy of the working tree).  Each test asserts what the property demands,
# so it PASSES while the fix is in place; a FAILED test (or one that does not terminate: TIMEOUT)
# is a violation with a real failing schedule.
REPO=${VERIF_REPO:-/repo}
OUT=${1:-/dev/stdout}
SCR=$(mktemp -d /tmp/vxfx_XXXXXX)
trap 'pkill -f "$SCR/target" 2>/dev/null; rm -rf "$SCR"' EXIT
rsync -a --exclude .git --exclude book "$REPO"/ "$SCR"/ 2>/dev/null
for f in Cargo.toml Cargo.lock codegen README.md tests; do [ -e "$SCR/$f" ] || cp -r /repo/$f "$SCR/$f"; done
[ -d "$SCR/target" ] || cp -r /repo/target "$SCR/target" 2>/dev/null
cp /verif/known-findings/replay_serial.rs "$SCR/tests/vx_fixed_serial.rs"
cp /verif/known-findings/replay_idle.rs "$SCR/tests/vx_fixed_idle.rs"
mkdir -p "$SCR/tests/features"; rm -rf "$SCR/tests/features/vx_kf"; cp -r /verif/known-findings/features "$SCR/tests/features/vx_kf"
cd "$SCR"
: > fx.log
RUST_BACKTRACE=0 CARGO_NET_OFFLINE=true cargo test --offline --test vx_fixed_serial --test vx_fixed_idle --no-run >> fx.log 2>&1
for t in vx_fixed_serial vx_fixed_idle; do
  RUST_BACKTRACE=0 CARGO_NET_OFFLINE=true timeout 90 cargo test --offline --test $t >> fx.log 2>&1
  [ $? -eq 124 ] && echo "VX-TIMEOUT $t" >> fx.log
done
python3 - "$OUT" <<'PY'
import re, sys, json
log = open('fx.log', errors='replace').read()
rows = []
for m in re.finditer(r"^test (\w+) \.\.\. (\w+)", log, re.M):
    rows.append(dict(test=m.group(1), result=m.group(2)))
names = {"vx_fixed_serial": "serial_scenario_runs_alone", "vx_fixed_idle": "run_terminates_when_the_parser_is_slower_than_the_scenarios"}
for m in re.finditer(r"^VX-TIMEOUT (\w+)", log, re.M):
    rows = [r for r in rows if r["test"] != names[m.group(1)]]
    rows.append(dict(test=names[m.group(1)], result="TIMEOUT"))
json.dump(dict(tests=rows, log_tail=log[-3000:]), open(sys.argv[1], "w"), indent=1)
for r in rows: print(r["test"], r["result"])
PY
