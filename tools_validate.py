#!/opt/veriftools/pyvenv/bin/python
import json, jsonschema, sys, glob
m=json.load(open('/verif/MANIFEST.json')); s=json.load(open('/root/.vp/MANIFEST.schema.json')); jsonschema.validate(m,s)
es=json.load(open('/root/.vp/EVIDENCE.schema.json'))
for c in m['checks']:
    try:
        e=json.load(open(c['evidence_file'])); jsonschema.validate(e,es); print('ok', c['property_id'], e['coverage'].get('obligations'), e['coverage'].get('discharged'))
    except Exception as ex:
        print('BAD', c['property_id'], str(ex)[:200])
ids=[json.loads(l)['id'] for l in open('/verif/properties.jsonl')]
claimed={c['property_id'] for c in m['checks']}; na={n['property_id'] for n in m.get('not_applicable',[])}
print('unaccounted:', [i for i in ids if i not in claimed and i not in na])
