//! vx — mechanical extractor: real function / item text of /repo  ──►  Verus input.
//!
//! Reads a unit template (`units/<unit>.vx`): free text (hand-written prelude, spec functions,
//! lemmas, impl headers) interleaved with `@@` directives that name items and functions of the
//! repository.  Every directive is replaced by the *original source text* of that item, taken by
//! byte range from the current working tree, with a fixed list of span-addressed edits (see
//! DESIGN.md §2.1, E1–E11).  Contracts are spliced in, never substituted for code.
//!
//! Exit status: 0 ok, 2 lost anchor / unsupported shape (undecided, never an alarm).

use std::{
    collections::{BTreeMap, HashMap},
    fs,
    path::{Path, PathBuf},
    process::exit,
};

use syn::{
    spanned::Spanned,
    visit::{self, Visit},
};

// ------------------------------------------------------------------------------------------------
// template model

#[derive(Debug, Default, Clone)]
struct FnDir {
    is_slice: bool,
    file: String,
    selector: String,
    from: Option<String>,
    to: Option<String>,
    block: Option<String>,
    name: Option<String>,
    ret: Option<String>,
    generics: Option<String>,
    wher: Option<String>,
    mutself: bool,
    /// `@@attr text`: verifier attribute lines put in front of the extracted function
    fn_attrs: Vec<String>,
    /// `@@refmutself`: a by-value receiver `self` of an impl for `&mut T` becomes `&mut self` (E9)
    refmutself: bool,
    /// `@@refmutself 'a`: the lifetime of that `&'a mut` (the impl is for `&'a mut T`)
    refmutself_lt: Option<String>,
    boolops: bool,
    nocanary: bool,
    nopub: bool,
    hoist: Option<usize>,
    /// `@@hoist k ~text`: the innermost closure containing `text` if exactly one does, else closure k
    hoist_text: Option<String>,
    sig: Option<String>,
    inline_then: Vec<usize>,
    /// E22 `@@inline_option`: every `opt.and_then(|p| body)` / `opt.or_else(|| body)` of the directive whose
    /// closure is written in place is replaced by the std definition of the call
    /// (`match opt { Some(p) => body, None => None }` / `match opt { Some(v) => Some(v), None => body }`):
    /// for closures that capture `&mut` state, which Verus rejects
    inline_option: bool,
    /// `@@noautopred`: switch E27 off for this directive
    noautopred: bool,
    /// E29 `@@unchain`: a `for` over mutable iterators is rendered as the loops / bindings its iterator expression stands for
    unchain: bool,
    /// E29: suffixes of receiver texts whose `.iter_mut()` is `Option::iter_mut` (`@@optiter .docstring`)
    optiters: Vec<String>,
    /// E29: text for generated loop K: ghost statements in front of it, a line `#inv`, its invariant clauses
    genloops: HashMap<usize, String>,
    /// E28 `@@streq`: every `a == b` / `a != b` of the directive is a comparison of texts (`&str` / `String` in any mix, which
    /// Verus gives no meaning): it becomes `vx_str_eq(&(a), &(b))` / `!vx_str_eq(..)`, a stand-in with std's meaning (same characters)
    streq: bool,
    /// `@@inline_option map`: also `opt.map(|p| body)` -> `match opt { Some(p) => Some(body), None => None }`
    /// (opt-in: `.map` is also a method of `Result` and of iterators, where the match would not type-check)
    inline_option_map: bool,
    /// E23 `@@strslice`: `&BASE[a..b]` (a reference to a range index) -> `vx_substr(&BASE, a, b)`, a
    /// declared stand-in of the unit (Verus has no string slicing); BASE is kept as written
    strslice: bool,
    /// `@@tail name`: the tail expression of the function is bound (`let name = <tail>;`), the
    /// `@@post` text follows, then `name` is the new tail — so that proof text can follow the result
    tail: Option<String>,
    /// `@@allow_empty`: a positional slice (`>a` .. `<b`) with nothing between its anchors is emitted
    /// as an EMPTY slice (so that the wrapper's contract is then checked against no code at all)
    allow_empty: bool,
    /// `@@bind $name ~anchor`: `$name` stands for the first identifier bound by the `let` statement
    /// of the function that matches `anchor` (so that contract text can name a local of the source
    /// without fixing its spelling)
    binds: Vec<(String, String)>,
    macros_opt: Vec<usize>,
    binds_opt: Vec<usize>,
    /// `@@noloops`: this contract (variant) is for a loop-free body: any loop is a lost anchor
    noloops: bool,
    /// E20 `@@caught ~text => call`: the expression `AssertUnwindSafe(async { BODY }).catch_unwind()`
    /// whose BODY contains `text` (user code run under catch_unwind) is replaced by `call`, a declared
    /// oracle stand-in; a `.then_yield()` is erased like `.await` (E3)
    caughts: Vec<(String, String)>,
    /// E19 `@@letarg method name` + text: the single argument of the call `path.method(arg)` is
    /// let-bound in front of the call (`{ let name = arg; <text> path.method(name) }`); the receiver
    /// must be a plain path, so the evaluation order is unchanged
    letargs: Vec<(String, String, String)>,
    /// E19 `@@letrecv method name` + text: the receiver of the call `recv.method(..)` is let-bound
    /// (`{ let name = recv; <text> name.method(..) }`); the receiver is evaluated first anyway
    letrecvs: Vec<(String, String, String)>,
    /// E17: iterator sources are renamed to the `VxIter` stand-ins of units/inc/iter.vx
    viter: bool,
    /// E18: `_ = map.entry(k).or_insert_with(|| body)` is replaced by its std definition
    inline_entry: bool,
    substs: Vec<(String, String)>,
    /// `@@subst? A => B`: as `@@subst`, but no error when `A` does not occur
    substs_opt: Vec<(String, String)>,
    spec: String,
    closures: HashMap<usize, String>,
    /// `@@closure ~text`: header for the innermost closure whose source text contains `text`
    /// (robust against reordering of closures, unlike ordinals)
    closures_by_text: Vec<(String, String)>,
    /// `@@closure? ~text`: as `@@closure ~text`, but silently skipped when no closure contains `text`
    closures_by_text_opt: Vec<bool>,
    /// `@@closure k ~text`: the innermost closure containing `text` if exactly one does, else closure k
    closures_pref: Vec<(usize, String, String)>,
    loops: HashMap<usize, String>,
    /// `@@loop_begin k` / `@@loop_end k`: ghost / proof text at the start / end of the body of loop k
    loop_begin: HashMap<usize, String>,
    loop_end: HashMap<usize, String>,
    pre: String,
    post: String,
    befores: Vec<(String, String)>,
    /// E24 `@@restmt anchor` + text: the one statement matching the anchor is REPLACED by the text (declared, reported)
    restmts: Vec<(String, String)>,
    macros: Vec<(String, String)>,
    tpl_line: usize,
    tpl_file: String,
    /// alternative contract texts (`@@alt`): tried by the driver when the first does not fit
    alts: Vec<FnDir>,
}

#[derive(Debug, Default, Clone)]
struct ItemDir {
    file: String,
    name: String,
    derive: Option<String>,
    substs: Vec<(String, String)>,
    attrs: Vec<String>,
    tpl_line: usize,
    tpl_file: String,
}

#[derive(Debug, Clone)]
enum Node {
    Text(String),
    Item(ItemDir),
    Func(FnDir),
}

fn die(msg: &str) -> ! {
    eprintln!("vx: LOST-ANCHOR/UNSUPPORTED: {msg}");
    exit(2);
}

fn parse_subst(rest: &str, ctx: &str) -> (String, String) {
    let Some((a, b)) = rest.split_once("=>") else {
        die(&format!("{ctx}: malformed `A => B`: {rest}"));
    };
    (a.trim().to_string(), b.trim().to_string())
}

fn parse_template(path: &Path, nodes: &mut Vec<Node>) {
    let text = fs::read_to_string(path)
        .unwrap_or_else(|e| die(&format!("cannot read template {}: {e}", path.display())));
    let lines: Vec<&str> = text.lines().collect();
    let mut i = 0;
    let mut cur_text = String::new();
    let tpl_file = path.display().to_string();
    while i < lines.len() {
        let l = lines[i];
        let t = l.trim_start();
        if !t.starts_with("@@") {
            cur_text.push_str(l);
            cur_text.push('\n');
            i += 1;
            continue;
        }
        if !cur_text.is_empty() {
            nodes.push(Node::Text(std::mem::take(&mut cur_text)));
        }
        let ctx = format!("{}:{}", tpl_file, i + 1);
        let mut parts = t[2..].splitn(2, char::is_whitespace);
        let kw = parts.next().unwrap_or("");
        let rest = parts.next().unwrap_or("").trim();
        match kw {
            "include" => {
                let p = path.parent().unwrap().join(rest);
                parse_template(&p, nodes);
                i += 1;
            }
            "item" => {
                let mut ws = rest.split_whitespace();
                let file = ws.next().unwrap_or_else(|| die(&format!("{ctx}: @@item needs file"))).to_string();
                let name = ws.next().unwrap_or_else(|| die(&format!("{ctx}: @@item needs name"))).to_string();
                let mut d = ItemDir { file, name, tpl_line: i + 1, tpl_file: tpl_file.clone(), ..Default::default() };
                for w in ws {
                    if let Some(v) = w.strip_prefix("derive=") {
                        d.derive = Some(v.replace(',', ", "));
                    } else {
                        die(&format!("{ctx}: unknown @@item option {w}"));
                    }
                }
                i += 1;
                // optional following @@isubst lines
                while i < lines.len() && (lines[i].trim_start().starts_with("@@isubst") || lines[i].trim_start().starts_with("@@iattr")) {
                    let t = lines[i].trim_start();
                    if t.starts_with("@@isubst") {
                        let r = t["@@isubst".len()..].trim();
                        d.substs.push(parse_subst(r, &ctx));
                    } else {
                        d.attrs.push(t["@@iattr".len()..].trim().to_string());
                    }
                    i += 1;
                }
                nodes.push(Node::Item(d));
            }
            "fn" | "slice" => {
                let mut ws = rest.splitn(2, char::is_whitespace);
                let file = ws.next().unwrap_or("").to_string();
                let selector = ws.next().unwrap_or("").trim().to_string();
                if file.is_empty() || selector.is_empty() {
                    die(&format!("{ctx}: @@{kw} needs <file> <selector>"));
                }
                let mut d = FnDir {
                    is_slice: kw == "slice",
                    file,
                    selector,
                    tpl_line: i + 1,
                    tpl_file: tpl_file.clone(),
                    ..Default::default()
                };
                i += 1;
                // sub-directives
                let mut closed = false;
                while i < lines.len() {
                    let t = lines[i].trim_start();
                    if !t.starts_with("@@") {
                        if t.is_empty() || t.starts_with("//") {
                            i += 1;
                            continue;
                        }
                        die(&format!("{}:{}: stray text inside @@fn block: {t}", tpl_file, i + 1));
                    }
                    let mut parts = t[2..].splitn(2, char::is_whitespace);
                    let kw = parts.next().unwrap_or("");
                    let rest = parts.next().unwrap_or("").trim().to_string();
                    let sctx = format!("{}:{}", tpl_file, i + 1);
                    i += 1;
                    let mut multiline = |i: &mut usize| -> String {
                        let mut s = String::new();
                        while *i < lines.len() && !lines[*i].trim_start().starts_with("@@") {
                            s.push_str(lines[*i]);
                            s.push('\n');
                            *i += 1;
                        }
                        s
                    };
                    match kw {
                        "end" => {
                            closed = true;
                            break;
                        }
                        "alt" => {
                            // everything so far is variant k; what follows overrides it in variant k+1
                            let mut base = d.clone();
                            base.alts.clear();
                            let mut alts = std::mem::take(&mut d.alts);
                            alts.push(base);
                            d.alts = alts;
                        }
                        "clear" => match rest.as_str() {
                            "befores" => d.befores.clear(),
                            "loops" => {
                                d.loops.clear();
                                d.loop_begin.clear();
                                d.loop_end.clear();
                            }
                            "closures" => {
                                d.closures.clear();
                                d.closures_by_text.clear();
                                d.closures_by_text_opt.clear();
                                d.closures_pref.clear();
                            }
                            "pre" => d.pre.clear(),
                            "post" => d.post.clear(),
                            "inline_then" => d.inline_then.clear(),
                            other => die(&format!("{sctx}: @@clear {other}?")),
                        },
                        "name" => d.name = Some(rest),
                        "ret" => d.ret = Some(rest),
                        "generics" => d.generics = Some(rest),
                        "where" => d.wher = Some(rest),
                        "mutself" => d.mutself = true,
                        "attr" => d.fn_attrs.push(rest.clone()),
                        "refmutself" => {
                            d.refmutself = true;
                            if !rest.trim().is_empty() {
                                d.refmutself_lt = Some(rest.trim().to_string());
                            }
                        }
                        "boolops" => d.boolops = true,
                        "nocanary" => d.nocanary = true,
                        "nopub" => d.nopub = true,
                        "hoist" => {
                            let (k, t) = match rest.split_once('~') {
                                Some((k, t)) => (k.trim().to_string(), Some(t.trim().to_string())),
                                None => (rest.clone(), None),
                            };
                            d.hoist = Some(k.parse().unwrap_or_else(|_| die(&format!("{sctx}: @@hoist needs closure ordinal"))));
                            d.hoist_text = t;
                        }
                        "sig" => d.sig = Some(rest),
                        "allow_empty" => d.allow_empty = true,
                        "noloops" => d.noloops = true,
                        "bind" | "bind?" => {
                            let (n, a) = rest.split_once(char::is_whitespace).unwrap_or_else(|| die(&format!("{sctx}: @@bind $name anchor")));
                            d.binds.push((n.trim().to_string(), a.trim().to_string()));
                            // `@@bind? ..`: when no `let` matches, `$name` becomes a fresh name that the text binds nothing to
                            if kw == "bind?" {
                                d.binds_opt.push(d.binds.len() - 1);
                            }
                        }
                        "tail" => d.tail = Some(rest),
                        "letrecv" => {
                            let mut it = rest.split_whitespace();
                            let m = it.next().unwrap_or_else(|| die(&format!("{sctx}: @@letrecv method name"))).to_string();
                            let mut n = it.next().unwrap_or_else(|| die(&format!("{sctx}: @@letrecv method name"))).to_string();
                            // optional third word: the single argument is let-bound too (`name argname`)
                            if let Some(a) = it.next() {
                                n = format!("{n} {a}");
                            }
                            let t = multiline(&mut i);
                            d.letrecvs.push((m, n, t));
                        }
                        "letarg" => {
                            let mut it = rest.split_whitespace();
                            let m = it.next().unwrap_or_else(|| die(&format!("{sctx}: @@letarg method name"))).to_string();
                            let n = it.next().unwrap_or_else(|| die(&format!("{sctx}: @@letarg method name"))).to_string();
                            let t = multiline(&mut i);
                            d.letargs.push((m, n, t));
                        }
                        "viter" => d.viter = true,
                        "noautopred" => d.noautopred = true,
                        "unchain" => d.unchain = true,
                        "optiter" => d.optiters.push(rest.trim().to_string()),
                        "genloop" => {
                            let k: usize = rest.trim().parse().unwrap_or_else(|_| die(&format!("{sctx}: @@genloop needs an ordinal")));
                            let t = multiline(&mut i);
                            d.genloops.insert(k, t);
                        }
                        "streq" => d.streq = true,
                        "strslice" => d.strslice = true,
                        "inline_or_insert_with" => d.inline_entry = true,
                        "inline_option" => { d.inline_option = true; if rest.split_whitespace().any(|w| w == "map") { d.inline_option_map = true; } }
                        "inline_then" => d.inline_then.push(rest.parse().unwrap_or_else(|_| die(&format!("{sctx}: @@inline_then needs closure ordinal")))),
                        "from" => d.from = Some(rest),
                        "to" => d.to = Some(rest),
                        "block" => d.block = Some(rest),
                        "subst" => d.substs.push(parse_subst(&rest, &sctx)),
                        "subst?" => d.substs_opt.push(parse_subst(&rest, &sctx)),
                        "macro" => d.macros.push(parse_subst(&rest, &sctx)),
                        // `@@macro? name => text`: as `@@macro`, but no error when the macro does not occur
                        "macro?" => {
                            d.macros.push(parse_subst(&rest, &sctx));
                            d.macros_opt.push(d.macros.len() - 1);
                        }
                        "caught" => d.caughts.push(parse_subst(&rest, &sctx)),
                        "spec" => d.spec = multiline(&mut i),
                        "pre" => d.pre = multiline(&mut i),
                        "post" => d.post = multiline(&mut i),
                        "closure?" => {
                            let anchor = rest.strip_prefix('~').unwrap_or_else(|| die(&format!("{sctx}: @@closure? needs ~text"))).trim().to_string();
                            let s = multiline(&mut i);
                            d.closures_by_text.push((anchor, s));
                            d.closures_by_text_opt.push(true);
                        }
                        "closure" => {
                            if let Some((k, anchor)) = rest.split_once('~').filter(|(k, _)| !k.trim().is_empty()) {
                                let k: usize = k.trim().parse().unwrap_or_else(|_| die(&format!("{sctx}: @@closure k ~text: bad ordinal")));
                                let s = multiline(&mut i);
                                d.closures_pref.push((k, anchor.trim().to_string(), s));
                            } else if let Some(anchor) = rest.strip_prefix('~') {
                                let anchor = anchor.trim().to_string();
                                let s = multiline(&mut i);
                                d.closures_by_text.push((anchor, s));
                                d.closures_by_text_opt.push(false);
                            } else {
                                let k: usize = rest.parse().unwrap_or_else(|_| die(&format!("{sctx}: @@closure needs ordinal or ~text")));
                                let s = multiline(&mut i);
                                d.closures.insert(k, s);
                            }
                        }
                        "loop" => {
                            let k: usize = rest.parse().unwrap_or_else(|_| die(&format!("{sctx}: @@loop needs ordinal")));
                            let s = multiline(&mut i);
                            d.loops.insert(k, s);
                        }
                        "loop_begin" | "loop_end" => {
                            let k: usize = rest.parse().unwrap_or_else(|_| die(&format!("{sctx}: @@{kw} needs ordinal")));
                            let s = multiline(&mut i);
                            if kw == "loop_begin" { d.loop_begin.insert(k, s); } else { d.loop_end.insert(k, s); }
                        }
                        "before" => {
                            let s = multiline(&mut i);
                            d.befores.push((rest, s));
                        }
                        "restmt" => {
                            let s = multiline(&mut i);
                            d.restmts.push((rest, s));
                        }
                        other => die(&format!("{sctx}: unknown sub-directive @@{other}")),
                    }
                }
                if !closed {
                    die(&format!("{ctx}: @@{kw} block without @@end"));
                }
                if !d.alts.is_empty() {
                    // variants in template order: alts[0] (first), ..., d (last)
                    let mut variants = std::mem::take(&mut d.alts);
                    variants.push(d.clone());
                    let mut first = variants.remove(0);
                    first.alts = variants;
                    d = first;
                }
                nodes.push(Node::Func(d));
            }
            other => die(&format!("{ctx}: unknown directive @@{other}")),
        }
    }
    if !cur_text.is_empty() {
        nodes.push(Node::Text(cur_text));
    }
}

// ------------------------------------------------------------------------------------------------
// source cache

struct Src {
    text: String,
    ast: syn::File,
}

fn line_of(text: &str, byte: usize) -> usize {
    text[..byte.min(text.len())].bytes().filter(|b| *b == b'\n').count() + 1
}

// ------------------------------------------------------------------------------------------------
// edits

#[derive(Debug, Clone)]
struct Edit {
    start: usize,
    end: usize,
    text: String,
    kind: &'static str,
    swallow: bool, // edits nested inside are discarded
}

const DEFAULT_FEATURES: &[&str] = &["macros", "default"];

fn cfg_eval(meta: &syn::Meta) -> Option<bool> {
    // evaluates the argument of #[cfg(...)]
    match meta {
        syn::Meta::NameValue(nv) => {
            if nv.path.is_ident("feature") {
                if let syn::Expr::Lit(syn::ExprLit { lit: syn::Lit::Str(s), .. }) = &nv.value {
                    return Some(DEFAULT_FEATURES.contains(&s.value().as_str()));
                }
            }
            None
        }
        syn::Meta::Path(p) => {
            if p.is_ident("test") || p.is_ident("kani") || p.is_ident("docsrs") || p.is_ident("doc") {
                Some(false)
            } else {
                None
            }
        }
        syn::Meta::List(l) => {
            let inner: syn::punctuated::Punctuated<syn::Meta, syn::Token![,]> = l
                .parse_args_with(syn::punctuated::Punctuated::parse_terminated)
                .ok()?;
            if l.path.is_ident("not") {
                let v = cfg_eval(inner.first()?)?;
                Some(!v)
            } else if l.path.is_ident("any") {
                let mut r = false;
                for m in &inner {
                    r = r || cfg_eval(m)?;
                }
                Some(r)
            } else if l.path.is_ident("all") {
                let mut r = true;
                for m in &inner {
                    r = r && cfg_eval(m)?;
                }
                Some(r)
            } else {
                None
            }
        }
    }
}

struct Ed<'a> {
    src: &'a str,
    dir: &'a FnDir,
    derive_keep: Option<String>,
    edits: Vec<Edit>,
    nodes: Vec<(usize, usize)>,
    cfg_false: Vec<(usize, usize)>,
    attr_spans: Vec<(usize, usize)>,
    closure_idx: usize,
    loop_idx: usize,
    awaits: usize,
    closures_used: Vec<usize>,
    closures_by_text_used: Vec<usize>,
    /// resolution of `closures_pref`: closure ordinal -> (entry, header)
    closures_resolved: HashMap<usize, (usize, String)>,
    closures_pref_used: Vec<usize>,
    inline_then_used: Vec<usize>,
    caughts_used: Vec<usize>,
    /// E20: locals bound to an `async { .. }` block that matches a `@@caught` anchor (name, index)
    caught_futs: Vec<(String, usize)>,
    /// E20: the source texts of the arguments of the user-code call of `@@caught` entry n (`$argK` / `$args` in its oracle text)
    caught_args: HashMap<usize, Vec<String>>,
    viter_used: usize,
    inline_entry_used: usize,
    letargs_used: Vec<usize>,
    letrecvs_used: Vec<usize>,
    letrecv_seen: Vec<(String, String)>,
    /// (method name, byte position) of every method call of the extracted text (for `method#k`)
    letrecv_positions: Vec<(String, usize)>,
    /// (loop ordinal, name of the loop variable) of `for name in ..` loops: `$loopK` in spliced text
    loop_vars: Vec<(usize, String)>,
    /// closures of the extracted text that received no contract header
    closures_unspecified: usize,
    /// (closure ordinal, parameter ordinal, name): `$cK_J` in spliced text
    closure_params: Vec<(usize, usize, String)>,
    loops_used: Vec<usize>,
    befores_used: Vec<bool>,
    restmts_used: Vec<usize>,
    macros_used: Vec<bool>,
    errors: Vec<String>,
    in_closure_inputs: bool,
    wild_n: usize,
    rename_self: bool,
    /// E26: parameters renamed to the names the contracts were written for (old name, new name)
    param_renames: Vec<(String, String)>,
    /// E27: byte offsets of closure literals handed directly to a predicate-taking method (`filter`, `any`, ..)
    bool_pred_closures: Vec<usize>,
    pub auto_pred_headers: usize,
    /// source ranges whose text is REPLACED by declared text (E24 statements, E25 closures): the piece does not cover them
    pub dropped: Vec<(usize, usize)>,
    /// placeholders usable in `@@restmt` anchors (`$hK` -> name of parameter K of the hoisted closure)
    pub anchor_names: Vec<(String, String)>,
    /// E29: number of loops generated so far, which `@@genloop` texts were used
    pub genloop_idx: usize,
    pub genloops_used: Vec<usize>,
    pub genloop_pats: Vec<(usize, String)>,
}

impl<'a> Ed<'a> {
    /// `@@closure k ~text`: prefer the innermost closure that contains the text
    fn resolve_closure_prefs(&mut self, block: Option<&syn::Block>, expr: Option<&syn::Expr>) {
        if self.dir.closures_pref.is_empty() {
            return;
        }
        let mut cl = ClosureLister { all: vec![] };
        if let Some(b) = block {
            cl.visit_block(b);
        }
        if let Some(e) = expr {
            cl.visit_expr(e);
        }
        let mut res: HashMap<usize, (usize, String)> = HashMap::new();
        for (n, (k, anchor, h)) in self.dir.closures_pref.iter().enumerate() {
            let cands: Vec<usize> = (0..cl.all.len())
                .filter(|&i| {
                    let (s, e) = cl.all[i];
                    self.src[s..e].contains(anchor.as_str())
                        && !cl.all.iter().any(|&(s2, e2)| s2 > s && e2 <= e && self.src[s2..e2].contains(anchor.as_str()))
                })
                .collect();
            let idx = if cands.len() == 1 { cands[0] } else { *k };
            res.insert(idx, (n, h.clone()));
        }
        self.closures_resolved = res;
    }
    fn new(src: &'a str, dir: &'a FnDir) -> Self {
        Ed {
            src,
            dir,
            derive_keep: None,
            edits: vec![],
            nodes: vec![],
            cfg_false: vec![],
            attr_spans: vec![],
            closure_idx: 0,
            loop_idx: 0,
            awaits: 0,
            closures_used: vec![],
            closures_by_text_used: vec![0; dir.closures_by_text.len()],
            closures_resolved: dir.closures_pref.iter().enumerate().map(|(n, (k, _, h))| (*k, (n, h.clone()))).collect(),
            closures_pref_used: vec![0; dir.closures_pref.len()],
            inline_then_used: vec![],
            caughts_used: vec![0; dir.caughts.len()],
            caught_futs: vec![],
            caught_args: HashMap::new(),
            viter_used: 0,
            inline_entry_used: 0,
            letargs_used: vec![0; dir.letargs.len()],
            letrecvs_used: vec![0; dir.letrecvs.len()],
            letrecv_seen: vec![],
            letrecv_positions: vec![],
            loop_vars: vec![],
            closures_unspecified: 0,
            closure_params: vec![],
            loops_used: vec![],
            befores_used: vec![false; dir.befores.len()],
            restmts_used: vec![0; dir.restmts.len()],
            macros_used: vec![false; dir.macros.len()],
            errors: vec![],
            in_closure_inputs: false,
            wild_n: 0,
            rename_self: false,
            param_renames: vec![],
            bool_pred_closures: vec![],
            auto_pred_headers: 0,
            dropped: vec![],
            anchor_names: vec![],
            genloop_idx: 0,
            genloops_used: vec![],
            genloop_pats: vec![],
        }
    }
    /// E22 (cont.): the body of an inlined closure is no longer a closure body, so a `return` in it would
    /// leave the enclosing function.  The early-return form `if c { ..; return E; } rest` at the top level of
    /// the body is rewritten to the equal `if c { ..; E } else { rest }`.
    fn early_returns_of_inlined_closure(&mut self, body: &syn::Expr) {
        let syn::Expr::Block(b) = body else { return };
        let be = b.block.span().byte_range().end;
        for st in &b.block.stmts {
            let syn::Stmt::Expr(syn::Expr::If(i), _) = st else { continue };
            if i.else_branch.is_some() { continue }
            let Some(syn::Stmt::Expr(syn::Expr::Return(r), semi)) = i.then_branch.stmts.last() else { continue };
            let Some(val) = &r.expr else { continue };
            let rs = r.span().byte_range();
            let vs = val.span().byte_range();
            self.push(rs.start, vs.start, "", "E22-early-return-of-inlined-closure", true);
            if let Some(semi) = semi { let ss = semi.span().byte_range(); self.push(ss.start, ss.end, "", "E22-early-return-of-inlined-closure", true); }
            let ie = i.span().byte_range().end;
            self.push(ie, ie, " else {", "E22-early-return-of-inlined-closure", true);
            self.push(be - 1, be - 1, "}", "E22-early-return-of-inlined-closure", true);
        }
    }
    /// E20: `$argK` / `$args` in the oracle text of `@@caught` entry n = the SOURCE text of the arguments the user code is
    /// called with (so that the verified text depends on them); a placeholder without such an argument is left in place
    /// (the generated text then does not compile: undecided)
    fn with_user_call_args(&self, n: usize, repl: String) -> String {
        let mut out = repl;
        if let Some(args) = self.caught_args.get(&n) {
            if out.contains("$args") {
                out = out.replace("$args", &args.join(", "));
            }
            for k in (0..args.len()).rev() {
                out = out.replace(&format!("$arg{k}"), &args[k]);
            }
        }
        out
    }
    /// E29: `for PAT in ITER { BODY }` where ITER is built from `&mut X` / `X.iter_mut()` (a Vec, or an Option when X ends in a
    /// declared `@@optiter` suffix), `iter::once(E)`, `A.chain(B)` and `A.flat_map(|P| B)`: rendered by the std definitions of these
    /// adaptors — `chain` = all of the first then all of the second (the body is repeated per part), `once(E)` = one binding,
    /// `Option::iter_mut` = a `match`, `flat_map` = a nested loop — so that only `Vec::iter_mut` loops remain, which vstd specifies.
    /// A `for` statement inside BODY is rendered the same way.  None = the iterator expression has another shape (left as it is).
    fn unchain_for(&mut self, l: &syn::ExprForLoop) -> Option<String> {
        let pat = self.src[l.pat.span().byte_range()].to_string();
        let body = self.unchain_block(&l.body)?;
        self.unchain_iter(&pat, &l.expr, &body)
    }
    fn unchain_block(&mut self, b: &syn::Block) -> Option<String> {
        let mut out = String::new();
        for st in &b.stmts {
            match st {
                syn::Stmt::Expr(syn::Expr::ForLoop(inner), _) => out.push_str(&self.unchain_for(inner)?),
                other => out.push_str(&self.src[other.span().byte_range()]),
            }
            out.push('\n');
        }
        Some(out)
    }
    fn unchain_iter(&mut self, pat: &str, e: &syn::Expr, body: &str) -> Option<String> {
        match e {
            syn::Expr::Paren(p) => self.unchain_iter(pat, &p.expr, body),
            // `&mut X`
            syn::Expr::Reference(r) if r.mutability.is_some() => {
                let recv = self.src[r.expr.span().byte_range()].to_string();
                Some(self.unchain_vec_loop(pat, &recv, body))
            }
            syn::Expr::Call(c) => {
                let f = self.src[c.func.span().byte_range()].to_string();
                if (f == "iter::once" || f == "std::iter::once" || f == "once") && c.args.len() == 1 {
                    let x = &self.src[c.args[0].span().byte_range()];
                    return Some(format!("{{ let {pat} = {x};\n{body} }}\n"));
                }
                None
            }
            syn::Expr::MethodCall(m) => {
                let name = m.method.to_string();
                if name == "iter_mut" && m.args.is_empty() {
                    let recv = self.src[m.receiver.span().byte_range()].to_string();
                    if self.dir.optiters.iter().any(|sfx| recv.ends_with(sfx.as_str())) {
                        return Some(format!("match &mut {recv} {{ Some({pat}) => {{ {body} }} None => {{}} }}\n"));
                    }
                    return Some(self.unchain_vec_loop(pat, &recv, body));
                }
                if name == "chain" && m.args.len() == 1 {
                    let a = self.unchain_iter(pat, &m.receiver, body)?;
                    let b = self.unchain_iter(pat, &m.args[0], body)?;
                    return Some(format!("{a}{b}"));
                }
                if name == "flat_map" && m.args.len() == 1 {
                    if let syn::Expr::Closure(c) = &m.args[0] {
                        if c.inputs.len() == 1 {
                            let p = self.src[c.inputs[0].span().byte_range()].to_string();
                            // the closure body is the inner iterator expression (possibly in a block of one expression)
                            let inner_e: &syn::Expr = match &*c.body {
                                syn::Expr::Block(b) if b.block.stmts.len() == 1 => match &b.block.stmts[0] { syn::Stmt::Expr(e, None) => e, _ => return None },
                                other => other,
                            };
                            let inner = self.unchain_iter(pat, inner_e, body)?;
                            return self.unchain_iter(&p, &m.receiver, &inner);
                        }
                    }
                }
                None
            }
            _ => None,
        }
    }
    fn unchain_vec_loop(&mut self, pat: &str, recv: &str, body: &str) -> String {
        let k = self.genloop_idx;
        self.genloop_idx += 1;
        let (pre, inv) = match self.dir.genloops.get(&k) {
            Some(t) => {
                self.genloops_used.push(k);
                match t.split_once("#inv") { Some((a, b)) => (a.to_string(), b.to_string()), None => (String::new(), t.clone()) }
            }
            None => (String::new(), String::new()),
        };
        // `$frecv` = the receiver as it finally is (`final(t).rows` for `t.rows`, `final(r)` for `r`); `$patJ` = the pattern of
        // generated loop J; `$pat#` = this loop's own pattern; `$it` / `$g` = its iterator / ghost iterator
        let frecv = match recv.split_once('.') { Some((h, rest)) => format!("final({h}).{rest}"), None => format!("final({recv})") };
        self.genloop_pats.push((k, pat.to_string()));
        let pre = pre.replace("$it", &format!("vx_it{k}")).replace("$frecv", &frecv);
        let inv = inv.replace("$it", &format!("vx_it{k}")).replace("$frecv", &frecv).replace("$g", &format!("vx_g{k}"));
        // (`$patJ` is filled in when the whole statement has been rendered: enclosing loops are rendered last)
        let pre = pre.replace("$pat#", pat);
        let inv = inv.replace("$pat#", pat);
        format!("{{ let vx_it{k} = {recv}.iter_mut();\n{pre}\nfor {pat} in vx_g{k}: vx_it{k}\n{inv}\n{{\n{body}}}\n}}\n")
    }
    fn push(&mut self, start: usize, end: usize, text: impl Into<String>, kind: &'static str, swallow: bool) {
        self.edits.push(Edit { start, end, text: text.into(), kind, swallow });
    }
    fn node<T: Spanned>(&mut self, t: &T) {
        let r = t.span().byte_range();
        self.nodes.push((r.start, r.end));
    }
    /// true iff src[from..to] consists of whitespace and whole attributes only
    fn only_attrs_between(&self, from: usize, to: usize) -> bool {
        let bytes = self.src.as_bytes();
        let mut p = from;
        while p < to {
            if (bytes[p] as char).is_whitespace() {
                p += 1;
                continue;
            }
            match self.attr_spans.iter().find(|(s, _)| *s == p) {
                Some(&(_, e)) => p = e,
                None => return false,
            }
        }
        p == to
    }
    /// `@@before >anchor`: insert before the statement FOLLOWING the one that matches
    fn before_next_pass(&mut self, stmts: &[syn::Stmt]) {
        for i in 1..stmts.len() {
            let pr = stmts[i - 1].span().byte_range();
            let ptxt = stmt_text_no_attrs(self.src, &stmts[i - 1], pr.start, pr.end);
            for (k, (anchor, ins)) in self.dir.befores.iter().enumerate() {
                if anchor.starts_with('>') && !self.befores_used[k] && anchor_match(ptxt, anchor.as_str()) {
                    self.befores_used[k] = true;
                    let at = stmts[i].span().byte_range().start;
                    self.edits.push(Edit { start: at, end: at, text: format!("{ins}\n"), kind: "splice-before", swallow: false });
                }
            }
        }
    }
    fn finish_cfg(&mut self) {
        let cfgs = std::mem::take(&mut self.cfg_false);
        for (s, e) in cfgs {
            let mut best: Option<(usize, usize)> = None;
            for &(ns, ne) in &self.nodes {
                if ns <= s && ne >= e && self.only_attrs_between(ns, s) && best.map_or(true, |b| ne - ns > b.1 - b.0) {
                    best = Some((ns, ne));
                }
            }
            let Some((ns, mut ne)) = best else {
                self.errors.push(format!(
                    "cfg(false) attribute at line {} has no removable parent node",
                    line_of(self.src, s)
                ));
                continue;
            };
            // swallow a following comma
            let bytes = self.src.as_bytes();
            let mut k = ne;
            while k < bytes.len() && (bytes[k] as char).is_whitespace() {
                k += 1;
            }
            if k < bytes.len() && bytes[k] == b',' {
                ne = k + 1;
            }
            self.push(ns, ne, "", "E2-cfg-remove", true);
        }
    }
}

impl<'a, 'ast> Visit<'ast> for Ed<'a> {
    fn visit_attribute(&mut self, a: &'ast syn::Attribute) {
        let r = a.span().byte_range();
        self.attr_spans.push((r.start, r.end));
        if a.path().is_ident("cfg") {
            let v = match &a.meta {
                syn::Meta::List(l) => l.parse_args::<syn::Meta>().ok().and_then(|m| cfg_eval(&m)),
                _ => None,
            };
            match v {
                Some(true) => self.push(r.start, r.end, "", "E2-cfg-true", false),
                Some(false) => self.cfg_false.push((r.start, r.end)),
                None => self.errors.push(format!(
                    "cannot evaluate cfg at line {}: {}",
                    line_of(self.src, r.start),
                    &self.src[r.clone()]
                )),
            }
            return;
        }
        if a.path().is_ident("derive") {
            if let Some(keep) = &self.derive_keep {
                let mut kept: Vec<String> = vec![];
                if let syn::Meta::List(l) = &a.meta {
                    if let Ok(ps) = l.parse_args_with(
                        syn::punctuated::Punctuated::<syn::Path, syn::Token![,]>::parse_terminated,
                    ) {
                        for p in ps {
                            let id = p.segments.last().unwrap().ident.to_string();
                            if keep.split(',').any(|k| k.trim() == id) {
                                kept.push(id);
                            }
                        }
                    }
                }
                let t = if kept.is_empty() { String::new() } else { format!("#[derive({})]", kept.join(", ")) };
                self.push(r.start, r.end, t, "E1-derive", false);
                return;
            }
        }
        self.push(r.start, r.end, "", "E1-attr", false);
    }

    fn visit_block(&mut self, b: &'ast syn::Block) {
        self.before_next_pass(&b.stmts);
        visit::visit_block(self, b);
    }
    fn visit_stmt(&mut self, s: &'ast syn::Stmt) {
        self.node(s);
        let r = s.span().byte_range();
        let txt = self.src[r.clone()].trim_start();
        for (k, (anchor, ins)) in self.dir.befores.iter().enumerate() {
            if anchor.starts_with('>') {
                continue;
            }
            // `$loopK` in a `@@before` anchor = the variable of `for` loop K (already visited)
            let mut anchor_l = anchor.clone();
            for (lk, name) in &self.loop_vars {
                anchor_l = anchor_l.replace(&format!("$loop{lk}"), name);
            }
            if !self.befores_used[k] && anchor_match(txt, anchor_l.as_str()) {
                self.befores_used[k] = true;
                self.edits.push(Edit { start: r.start, end: r.start, text: format!("{ins}\n"), kind: "splice-before", swallow: false });
            }
        }
        // E24: a whole statement replaced by declared text (a composition of pieces verified elsewhere)
        for (k, (anchor, text)) in self.dir.restmts.iter().enumerate() {
            // `$hK` in the anchor = the name the source gives to parameter K of the hoisted closure
            let mut anchor = anchor.clone();
            for (ph, name) in &self.anchor_names {
                anchor = anchor.replace(ph.as_str(), name.as_str());
            }
            if anchor_match(txt, anchor.as_str()) {
                self.restmts_used[k] += 1;
                self.push(r.start, r.end, text.trim_end().to_string(), "E24-statement-replaced-by-declared-text", true);
                self.dropped.push((r.start, r.end));
                return;
            }
        }
        // E20: `let fut = async { BODY };` .. `AssertUnwindSafe(fut).catch_unwind()`: the user code is
        // named first and run under catch_unwind later; the `let` is erased (an async block does
        // nothing until it is polled) and the catch expression is replaced by the oracle stand-in
        if let syn::Stmt::Local(l) = s {
            if let (syn::Pat::Ident(pi), Some(init)) = (&l.pat, &l.init) {
                // `let fut = (hook)(..);` .. `AssertUnwindSafe(fut).catch_unwind()`: the user code is CALLED
                // outside catch_unwind (only the future it returns is polled inside): the call becomes
                // `vx_unguarded_user_code()` (a stand-in with `requires false`: an obligation that fails)
                if let syn::Expr::Call(c) = &*init.expr {
                    let t = self.src[c.span().byte_range()].to_string();
                    let hit = self.dir.caughts.iter().position(|(anchor, _)| t.starts_with(anchor.trim_start_matches('~').trim()));
                    if let Some(n) = hit {
                        self.caught_futs.push((pi.ident.to_string(), n));
                        let args = c.args.iter().map(|a| self.src[a.span().byte_range()].to_string()).collect();
                        self.caught_args.insert(n, args);
                        let cr = c.span().byte_range();
                        self.push(cr.start, cr.end, "vx_unguarded_user_code::<()>()", "E20-unguarded-user-code", true);
                        return;
                    }
                }
                if let syn::Expr::Async(a) = &*init.expr {
                    let body = &self.src[a.block.span().byte_range()];
                    let hit = self.dir.caughts.iter().position(|(anchor, _)| body.contains(anchor.trim_start_matches('~').trim()));
                    if let Some(n) = hit {
                        self.caught_futs.push((pi.ident.to_string(), n));
                        if let Some(args) = user_call_args(self.src, &a.block, self.dir.caughts[n].0.trim_start_matches('~').trim()) {
                            self.caught_args.insert(n, args);
                        }
                        self.push(r.start, r.end, "// vx: E20 — async block of user code, run under catch_unwind below", "E20-caught-user-code", true);
                        return;
                    }
                }
            }
        }
        visit::visit_stmt(self, s);
    }
    fn visit_expr(&mut self, e: &'ast syn::Expr) {
        self.node(e);
        visit::visit_expr(self, e);
    }
    fn visit_fn_arg(&mut self, e: &'ast syn::FnArg) {
        self.node(e);
        visit::visit_fn_arg(self, e);
    }
    fn visit_field(&mut self, e: &'ast syn::Field) {
        self.node(e);
        visit::visit_field(self, e);
    }
    fn visit_variant(&mut self, e: &'ast syn::Variant) {
        self.node(e);
        visit::visit_variant(self, e);
    }
    fn visit_arm(&mut self, e: &'ast syn::Arm) {
        self.node(e);
        // `@@before anchor` also addresses the body of a match arm that is an expression (not a block):
        // `pat => expr,` becomes `pat => { <text> expr },`
        if !matches!(*e.body, syn::Expr::Block(_)) {
            let r = e.body.span().byte_range();
            let txt = self.src[r.clone()].trim_start();
            for (k, (anchor, ins)) in self.dir.befores.iter().enumerate() {
                if anchor.starts_with('>') {
                    continue;
                }
                if !self.befores_used[k] && anchor_match(txt, anchor.as_str()) {
                    self.befores_used[k] = true;
                    self.edits.push(Edit { start: r.start, end: r.start, text: format!("{{ {ins}\n"), kind: "splice-before", swallow: false });
                    self.edits.push(Edit { start: r.end, end: r.end, text: " }".to_string(), kind: "splice-before", swallow: false });
                }
            }
        }
        visit::visit_arm(self, e);
    }
    fn visit_expr_path(&mut self, e: &'ast syn::ExprPath) {
        // E16: `mut self` receivers are unsupported by Verus: `fn f(mut self)` becomes `fn f(self)`
        // with `let mut vx_self = self;` and every `self` of the body renamed
        if self.rename_self && e.qself.is_none() && e.path.is_ident("self") {
            let r = e.span().byte_range();
            self.push(r.start, r.end, "vx_self", "E16-mut-self", false);
        }
        if e.qself.is_none() && e.path.segments.len() == 1 {
            let id = e.path.segments[0].ident.to_string();
            if let Some((_, n)) = self.param_renames.iter().find(|(o, _)| *o == id) {
                let r = e.span().byte_range();
                self.push(r.start, r.end, n.clone(), "E26-parameter-named-as-recorded", false);
            }
        }
        visit::visit_expr_path(self, e);
    }
    fn visit_field_pat(&mut self, e: &'ast syn::FieldPat) {
        self.node(e);
        visit::visit_field_pat(self, e);
    }
    fn visit_field_value(&mut self, e: &'ast syn::FieldValue) {
        self.node(e);
        visit::visit_field_value(self, e);
    }
    fn visit_item(&mut self, e: &'ast syn::Item) {
        self.node(e);
        visit::visit_item(self, e);
    }

    fn visit_expr_await(&mut self, e: &'ast syn::ExprAwait) {
        // E4: `future::join(a, b).await` -> `(a, b)`: a tuple expression evaluates a, then b
        if let syn::Expr::Call(c) = &*e.base {
            if let syn::Expr::Path(p) = &*c.func {
                let segs: Vec<String> = p.path.segments.iter().map(|s| s.ident.to_string()).collect();
                if segs.last().map(|s| s == "join").unwrap_or(false) && segs.iter().any(|s| s == "future") {
                    let r = p.span().byte_range();
                    self.push(r.start, r.end, "", "E4-join-sequenced", false);
                }
            }
        }
        let s = e.dot_token.span().byte_range().start;
        let t = e.await_token.span().byte_range().end;
        self.push(s, t, "", "E3-await", false);
        self.awaits += 1;
        visit::visit_expr_await(self, e);
    }
    fn visit_expr_async(&mut self, e: &'ast syn::ExprAsync) {
        self.errors.push(format!("async block at line {} is not supported", line_of(self.src, e.span().byte_range().start)));
    }
    fn visit_expr_assign(&mut self, e: &'ast syn::ExprAssign) {
        // E18: `_ = map.entry(k).or_insert_with(|| body)` (result discarded, closure captures `&mut`
        // state, which Verus rejects) is replaced by the std definition of the call:
        // `{ let vx_k = k; if !map.contains_key(&vx_k) { let vx_v = body; let _ = map.insert(vx_k, vx_v); } }`
        if self.dir.inline_entry && matches!(*e.left, syn::Expr::Infer(_)) {
            if let syn::Expr::MethodCall(oi) = &*e.right {
                if oi.method == "or_insert_with" && oi.args.len() == 1 {
                    if let (syn::Expr::Closure(c), syn::Expr::MethodCall(en)) = (&oi.args[0], &*oi.receiver) {
                        let place_ok = matches!(*en.receiver, syn::Expr::Field(_) | syn::Expr::Path(_));
                        if c.inputs.is_empty() && en.method == "entry" && en.args.len() == 1 && place_ok {
                            self.inline_entry_used += 1;
                            let es = e.span().byte_range();
                            let ks = en.args[0].span().byte_range();
                            let bs = c.body.span().byte_range();
                            let x = self.src[en.receiver.span().byte_range()].to_string();
                            self.push(es.start, ks.start, "{ let vx_k = ", "E18-or-insert-with-inlined", true);
                            self.push(ks.end, bs.start, format!("; if !{x}.contains_key(&vx_k) {{ let vx_v = "), "E18-or-insert-with-inlined", true);
                            self.push(bs.end, es.end, format!("; let _ = {x}.insert(vx_k, vx_v); }} }}"), "E18-or-insert-with-inlined", true);
                            self.visit_expr(&en.args[0]);
                            self.closure_idx += 1; // the closure literal disappears but keeps its ordinal
                            self.visit_expr(&c.body);
                            return;
                        }
                    }
                }
            }
        }
        if matches!(*e.left, syn::Expr::Infer(_)) {
            let s = e.span().byte_range().start;
            self.push(s, s, "let ", "E5-let-underscore", false);
        }
        visit::visit_expr_assign(self, e);
    }
    fn visit_expr_call(&mut self, c: &'ast syn::ExprCall) {
        // E20: a call of user code that is reached here is NOT inside an `async` block run under
        // catch_unwind (those are replaced as a whole and never visited)
        if !self.dir.caughts.is_empty() {
            let t = &self.src[c.span().byte_range()];
            let hit = self.dir.caughts.iter().position(|(anchor, _)| t.starts_with(anchor.trim_start_matches('~').trim()));
            if let Some(n) = hit {
                self.caughts_used[n] += 1;
                let cr = c.span().byte_range();
                // `@@caught ~text => oracle ||| unguarded`: the second text stands for the call when it is
                // reached OUTSIDE catch_unwind (a typed stand-in with `requires false`)
                let repl = match self.dir.caughts[n].1.split_once("|||") {
                    Some((_, u)) => u.trim().to_string(),
                    None => "vx_unguarded_user_code()".to_string(),
                };
                self.push(cr.start, cr.end, repl, "E20-unguarded-user-code", true);
                return;
            }
        }
        visit::visit_expr_call(self, c);
    }
    fn visit_expr_method_call(&mut self, e: &'ast syn::ExprMethodCall) {
        // E27: a closure literal handed to a method that takes a predicate returns `bool`
        if e.args.len() == 1 && matches!(e.method.to_string().as_str(), "filter" | "any" | "all" | "find" | "position" | "take_while" | "skip_while" | "retain" | "is_some_and" | "is_none_or" | "is_ok_and" | "is_err_and") {
            if let syn::Expr::Closure(c) = &e.args[0] {
                self.bool_pred_closures.push(c.span().byte_range().start);
            }
        }
        // E20: `AssertUnwindSafe(async { BODY }).catch_unwind()` -> the declared oracle stand-in
        if e.method == "catch_unwind" && e.args.is_empty() {
            if let syn::Expr::Call(c) = &*e.receiver {
                if let (syn::Expr::Path(p), Some(syn::Expr::Path(fp)), 1) = (&*c.func, c.args.first(), c.args.len()) {
                    if p.path.segments.last().map(|s| s.ident == "AssertUnwindSafe").unwrap_or(false) {
                        let hit = self.caught_futs.iter().rev().find(|(name, _)| fp.path.is_ident(name.as_str())).map(|(_, n)| *n);
                        if let Some(n) = hit {
                            self.caughts_used[n] += 1;
                            let es = e.span().byte_range();
                            let repl = self.with_user_call_args(n, caught_guarded(&self.dir.caughts[n].1));
                            self.push(es.start, es.end, repl, "E20-caught-user-code", true);
                            return;
                        }
                    }
                }
                // `AssertUnwindSafe(step_fn(..)).catch_unwind()`: the user function is CALLED before
                // catch_unwind is in effect (only the future it returns is polled inside it)
                if let (syn::Expr::Path(p), Some(syn::Expr::Call(uc)), 1) = (&*c.func, c.args.first(), c.args.len()) {
                    if p.path.segments.last().map(|s| s.ident == "AssertUnwindSafe").unwrap_or(false) {
                        let t = &self.src[uc.span().byte_range()];
                        let hit = self.dir.caughts.iter().position(|(anchor, _)| t.starts_with(anchor.trim_start_matches('~').trim()));
                        if let Some(n) = hit {
                            self.caughts_used[n] += 1;
                            let es = e.span().byte_range();
                            let args = uc.args.iter().map(|a| self.src[a.span().byte_range()].to_string()).collect();
                            self.caught_args.insert(n, args);
                            let repl = format!("({{ vx_unguarded_user_code::<()>(); {} }})", self.with_user_call_args(n, caught_guarded(&self.dir.caughts[n].1)));
                            self.push(es.start, es.end, repl, "E20-unguarded-user-code", true);
                            return;
                        }
                    }
                }
                if let (syn::Expr::Path(p), Some(syn::Expr::Async(a)), 1) = (&*c.func, c.args.first(), c.args.len()) {
                    if p.path.segments.last().map(|s| s.ident == "AssertUnwindSafe").unwrap_or(false) {
                        let body = &self.src[a.block.span().byte_range()];
                        for (n, (anchor, repl)) in self.dir.caughts.iter().enumerate() {
                            if body.contains(anchor.trim_start_matches('~').trim()) {
                                self.caughts_used[n] += 1;
                                let es = e.span().byte_range();
                                if let Some(args) = user_call_args(self.src, &a.block, anchor.trim_start_matches('~').trim()) {
                                    self.caught_args.insert(n, args);
                                }
                                let repl = self.with_user_call_args(n, caught_guarded(repl));
                                self.push(es.start, es.end, repl, "E20-caught-user-code", true);
                                return;
                            }
                        }
                    }
                }
            }
        }
        // E3: `.then_yield()` only adds a suspension point
        // (only in directives that use E20: elsewhere `then_yield` is significant — the idle turn of
        // `execute` is verified as a call of the scheduler stand-in)
        if e.method == "then_yield" && e.args.is_empty() && !self.dir.caughts.is_empty() {
            let rr = e.receiver.span().byte_range();
            let es = e.span().byte_range();
            self.push(rr.end, es.end, "", "E3-then-yield", false);
            self.visit_expr(&e.receiver);
            return;
        }
        // E22: `opt.and_then(|p| body)` / `opt.or_else(|| body)` -> the std definition of the call
        if self.dir.inline_option && e.args.len() == 1 && (e.method == "and_then" || e.method == "or_else") {
            if let syn::Expr::Closure(c) = &e.args[0] {
                let ok = if e.method == "and_then" { c.inputs.len() == 1 } else { c.inputs.is_empty() };
                if ok {
                    self.closure_idx += 1; // the closure literal disappears but keeps its ordinal
                    let rs = e.receiver.span().byte_range();
                    let bs = c.body.span().byte_range();
                    let es = e.span().byte_range();
                    self.push(rs.start, rs.start, "(match ", "E22-option-combinator-inlined", false);
                    if e.method == "and_then" {
                        let ps = c.inputs[0].span().byte_range();
                        let pat = self.src[ps].to_string();
                        self.push(rs.end, bs.start, format!(" {{ Some({pat}) => "), "E22-option-combinator-inlined", true);
                        self.push(bs.end, es.end, ", None => None })", "E22-option-combinator-inlined", true);
                    } else {
                        self.push(rs.end, bs.start, " { Some(vx_some) => Some(vx_some), None => ", "E22-option-combinator-inlined", true);
                        self.push(bs.end, es.end, " })", "E22-option-combinator-inlined", true);
                    }
                    self.early_returns_of_inlined_closure(&c.body);
                    self.visit_expr(&e.receiver);
                    self.visit_expr(&c.body);
                    return;
                }
            }
        }
        // E22 (cont.): `opt.unwrap_or_else(|| body)` -> `match opt { Some(v) => v, None => body }`
        if self.dir.inline_option && e.args.len() == 1 && e.method == "unwrap_or_else" {
            if let syn::Expr::Closure(c) = &e.args[0] {
                if c.inputs.is_empty() {
                    let rs = e.receiver.span().byte_range();
                    let bs = c.body.span().byte_range();
                    let es = e.span().byte_range();
                    self.push(rs.start, rs.start, "(match ", "E22-option-combinator-inlined", false);
                    self.push(rs.end, bs.start, " { Some(vx_some) => vx_some, None => ", "E22-option-combinator-inlined", true);
                    self.push(bs.end, es.end, " })", "E22-option-combinator-inlined", true);
                    self.early_returns_of_inlined_closure(&c.body);
                    self.visit_expr(&e.receiver);
                    self.closure_idx += 1; // the closure literal disappears but keeps its ordinal (source order)
                    self.visit_expr(&c.body);
                    return;
                }
            }
        }
        // E22 (cont.): `opt.map_or_else(|| a, |p| b)` -> `match opt { Some(p) => b, None => a }`;
        // `opt.filter(|p| cond)` -> `match opt { Some(v) => if { let p = &v; cond } { Some(v) } else { None }, None => None }`
        if self.dir.inline_option && e.method == "map_or_else" && e.args.len() == 2 {
            if let (syn::Expr::Closure(cd), syn::Expr::Closure(cf)) = (&e.args[0], &e.args[1]) {
                if cd.inputs.is_empty() && cf.inputs.len() == 1 {
                    self.closure_idx += 2;
                    let rs = e.receiver.span().byte_range();
                    let es = e.span().byte_range();
                    let ds = cd.body.span().byte_range();
                    let fs = cf.body.span().byte_range();
                    let pat = self.src[cf.inputs[0].span().byte_range()].to_string();
                    // source order is `default` then `f`: the emitted match keeps both texts in place
                    self.push(rs.start, rs.start, "(match ", "E22-option-combinator-inlined", false);
                    self.push(rs.end, ds.start, " { None => ", "E22-option-combinator-inlined", true);
                    self.push(ds.end, fs.start, format!(", Some({pat}) => "), "E22-option-combinator-inlined", true);
                    self.push(fs.end, es.end, " })", "E22-option-combinator-inlined", true);
                    self.visit_expr(&e.receiver);
                    self.visit_expr(&cd.body);
                    self.visit_expr(&cf.body);
                    return;
                }
            }
        }
        // E22 (cont.): `opt.map_or_else(|| a, PATH)` (a function or constructor by name) -> `match opt { None => a, Some(v) => PATH(v) }`
        if self.dir.inline_option && e.method == "map_or_else" && e.args.len() == 2 {
            if let (syn::Expr::Closure(cd), syn::Expr::Path(pf)) = (&e.args[0], &e.args[1]) {
                if cd.inputs.is_empty() {
                    let rs = e.receiver.span().byte_range();
                    let es = e.span().byte_range();
                    let ds = cd.body.span().byte_range();
                    let fs = pf.span().byte_range();
                    self.push(rs.start, rs.start, "(match ", "E22-option-combinator-inlined", false);
                    self.push(rs.end, ds.start, " { None => ", "E22-option-combinator-inlined", true);
                    self.push(ds.end, fs.start, ", Some(vx_some) => ", "E22-option-combinator-inlined", true);
                    self.push(fs.end, es.end, "(vx_some) })", "E22-option-combinator-inlined", true);
                    self.visit_expr(&e.receiver);
                    self.closure_idx += 1;
                    self.visit_expr(&cd.body);
                    return;
                }
            }
        }
        // E22 (cont.): `opt.is_some_and(|p| c)` -> `match opt { Some(p) => c, None => false }`,
        // `opt.is_none_or(|p| c)` -> `match opt { Some(p) => c, None => true }`
        if self.dir.inline_option && (e.method == "is_some_and" || e.method == "is_none_or") && e.args.len() == 1 {
            if let syn::Expr::Closure(c) = &e.args[0] {
                if c.inputs.len() == 1 {
                    self.closure_idx += 1;
                    let rs = e.receiver.span().byte_range();
                    let es = e.span().byte_range();
                    let bs = c.body.span().byte_range();
                    let pat = self.src[c.inputs[0].span().byte_range()].to_string();
                    let none = if e.method == "is_some_and" { "false" } else { "true" };
                    self.push(rs.start, rs.start, "(match ", "E22-option-combinator-inlined", false);
                    self.push(rs.end, bs.start, format!(" {{ Some({pat}) => "), "E22-option-combinator-inlined", true);
                    self.push(bs.end, es.end, format!(", None => {none} }})"), "E22-option-combinator-inlined", true);
                    self.visit_expr(&e.receiver);
                    self.visit_expr(&c.body);
                    return;
                }
            }
        }
        if self.dir.inline_option_map && e.method == "map" && e.args.len() == 1 {
            if let syn::Expr::Closure(c) = &e.args[0] {
                if c.inputs.len() == 1 {
                    self.closure_idx += 1;
                    let rs = e.receiver.span().byte_range();
                    let es = e.span().byte_range();
                    let bs = c.body.span().byte_range();
                    let pat = self.src[c.inputs[0].span().byte_range()].to_string();
                    self.push(rs.start, rs.start, "(match ", "E22-option-combinator-inlined", false);
                    self.push(rs.end, bs.start, format!(" {{ Some({pat}) => Some("), "E22-option-combinator-inlined", true);
                    self.push(bs.end, es.end, "), None => None })", "E22-option-combinator-inlined", true);
                    self.visit_expr(&e.receiver);
                    self.visit_expr(&c.body);
                    return;
                }
            }
        }
        if self.dir.inline_option && e.method == "filter" && e.args.len() == 1 {
            if let syn::Expr::Closure(c) = &e.args[0] {
                if c.inputs.len() == 1 {
                    self.closure_idx += 1;
                    let rs = e.receiver.span().byte_range();
                    let es = e.span().byte_range();
                    let bs = c.body.span().byte_range();
                    let pat = self.src[c.inputs[0].span().byte_range()].to_string();
                    self.push(rs.start, rs.start, "(match ", "E22-option-combinator-inlined", false);
                    self.push(rs.end, bs.start, format!(" {{ Some(vx_some) => if {{ let {pat} = &vx_some; "), "E22-option-combinator-inlined", true);
                    self.push(bs.end, es.end, " } { Some(vx_some) } else { None }, None => None })", "E22-option-combinator-inlined", true);
                    self.visit_expr(&e.receiver);
                    self.visit_expr(&c.body);
                    return;
                }
            }
        }
        // E15: `cond.then(|| body)` with a closure that captures `&mut` state (rejected by Verus) is
        // replaced by the std definition of `bool::then`: `if cond { Some(body) } else { None }`
        if e.method == "then" && e.args.len() == 1 {
            if let syn::Expr::Closure(c) = &e.args[0] {
                if c.inputs.is_empty() && self.dir.inline_then.contains(&self.closure_idx) {
                    self.inline_then_used.push(self.closure_idx);
                    self.closure_idx += 1; // the closure literal disappears but keeps its ordinal
                    let rs = e.receiver.span().byte_range();
                    let bs = c.body.span().byte_range();
                    let es = e.span().byte_range();
                    self.push(rs.start, rs.start, "if ", "E15-then-inlined", false);
                    self.push(rs.end, bs.start, " { Some(", "E15-then-inlined", true);
                    self.push(bs.end, es.end, ") } else { None }", "E15-then-inlined", true);
                    self.visit_expr(&e.receiver);
                    self.visit_expr(&c.body);
                    return;
                }
            }
        }
        // E19: `path.method(arg)` -> `{ let name = arg; <proof text> path.method(name) }`
        for (n, (m, name, text)) in self.dir.letargs.iter().enumerate() {
            if e.method == m.as_str() && e.args.len() == 1 && matches!(*e.receiver, syn::Expr::Path(_)) {
                self.letargs_used[n] += 1;
                let es = e.span().byte_range();
                let ar = e.args[0].span().byte_range();
                let recv = self.src[e.receiver.span().byte_range()].to_string();
                self.push(es.start, ar.start, format!("({{ let {name} = "), "E19-argument-let-bound", true);
                self.push(ar.end, es.end, format!(";\n{}\n        {recv}.{m}({name}) }})", text.trim_end()), "E19-argument-let-bound", true);
                self.visit_expr(&e.args[0]);
                return;
            }
        }
        // E19: `recv.method(args)` -> `{ let name = recv; <proof text> name.method(args) }`
        for (n, (m, name, text)) in self.dir.letrecvs.iter().enumerate() {
            // `method#k`: the k-th call of that method (in source order of their receivers' ends)
            let (m, want) = match m.split_once('#') {
                Some((mm, k)) => (mm, k.parse::<usize>().ok()),
                None => (m.as_str(), None),
            };
            // (a receiver that is a local's name is let-bound as well — a move of that local; `self` is not)
            let recv_is_self = matches!(&*e.receiver, syn::Expr::Path(p) if p.path.is_ident("self"));
            if e.method == m && !recv_is_self {
                if let Some(k) = want {
                    let key = format!("{m}@{}", e.method.span().byte_range().start);
                    if !self.letrecv_seen.iter().any(|(mm, kk)| mm == m && kk == &key) {
                        self.letrecv_seen.push((m.to_string(), key.clone()));
                    }
                    // ordinal by source position among calls of this method seen so far is not
                    // stable during the walk (outer calls are visited first), so positions of all
                    // calls are collected up front in `letrecv_positions`
                    let pos = e.method.span().byte_range().start;
                    let mut all: Vec<usize> = self.letrecv_positions.iter().filter(|(mm, _)| mm == m).map(|(_, p)| *p).collect();
                    all.sort();
                    if all.get(k) != Some(&pos) {
                        continue;
                    }
                }
                self.letrecvs_used[n] += 1;
                let es = e.span().byte_range();
                let rr = e.receiver.span().byte_range();
                let ms = e.method.span().byte_range().start;
                let (rname, aname) = match name.split_once(' ') {
                    Some((r, a)) => (r.to_string(), Some(a.to_string())),
                    None => (name.clone(), None),
                };
                self.push(es.start, es.start, format!("({{ let {rname} = "), "E19-receiver-let-bound", false);
                match (&aname, e.args.len()) {
                    (Some(an), 1) => {
                        // `{ let r = recv; let a = arg; <text> r.m(a) }`: receiver, then argument, as before
                        let ar = e.args[0].span().byte_range();
                        self.push(rr.end, ar.start, format!(";\n        let {an} = "), "E19-receiver-let-bound", true);
                        self.push(ar.end, es.end, format!(";\n{}\n        {rname}.{m}({an}) }})", text.trim_end()), "E19-receiver-let-bound", true);
                    }
                    (Some(an), k) if k >= 2 && e.args.iter().take(k - 1).all(|a| matches!(a, syn::Expr::Path(_))) => {
                        // several arguments, all but the last plain paths (no evaluation effects): the LAST
                        // argument is let-bound: `{ let r = recv; let a = last; <text> r.m(p0, .., a) }`
                        let first = e.args[0].span().byte_range();
                        let prev = e.args[k - 2].span().byte_range();
                        let ar = e.args[k - 1].span().byte_range();
                        let earlier = self.src[first.start..prev.end].to_string();
                        self.push(rr.end, ar.start, format!(";\n        let {an} = "), "E19-receiver-let-bound", true);
                        self.push(ar.end, es.end, format!(";\n{}\n        {rname}.{m}({earlier}, {an}) }})", text.trim_end()), "E19-receiver-let-bound", true);
                        self.visit_expr(&e.receiver);
                        self.visit_expr(&e.args[k - 1]);
                        return;
                    }
                    _ => {
                        self.push(rr.end, ms, format!(";\n{}\n        {rname}.", text.trim_end()), "E19-receiver-let-bound", true);
                        self.push(es.end, es.end, " })", "E19-receiver-let-bound", false);
                    }
                }
                self.visit_expr(&e.receiver);
                for a in &e.args {
                    self.visit_expr(a);
                }
                return;
            }
        }
        // E17: iterator sources are renamed to the eager `VxIter` stand-ins (units/inc/iter.vx), whose
        // adaptor methods carry ASSUMED specifications of the std / itertools adaptors of the same name
        if self.dir.viter && e.args.is_empty() && e.turbofish.is_none() {
            let m = e.method.to_string();
            if matches!(m.as_str(), "iter" | "into_iter" | "drain" | "keys" | "values" | "into_values" | "into_keys") {
                let r = e.method.span().byte_range();
                self.viter_used += 1;
                self.push(r.start, r.end, format!("vx_{m}"), "E17-iterator-source", false);
            }
        }
        // E14: a std datatype constructor used as a function value (`.map_ok(Some)`) is
        // eta-expanded (`.map_ok(|vx_e| Some(vx_e))`): Verus has no constructor function values
        for a in &e.args {
            if let syn::Expr::Path(p) = a {
                if p.qself.is_none() && p.path.segments.len() == 1 {
                    let id = p.path.segments[0].ident.to_string();
                    if id == "Some" || id == "Ok" || id == "Err" {
                        let r = p.span().byte_range();
                        self.push(r.start, r.end, format!("|vx_e| {id}(vx_e)"), "E14-constructor-eta", false);
                    }
                }
            }
        }
        visit::visit_expr_method_call(self, e);
    }
    fn visit_expr_reference(&mut self, e: &'ast syn::ExprReference) {
        // E23: `&BASE[a..b]` -> `vx_substr(&BASE, a, b)`
        if self.dir.strslice && e.mutability.is_none() {
            if let syn::Expr::Index(ix) = &*e.expr {
                if let syn::Expr::Range(rg) = &*ix.index {
                    if let (Some(a), Some(b), syn::RangeLimits::HalfOpen(_)) = (&rg.start, &rg.end, &rg.limits) {
                        let es = e.span().byte_range();
                        let bs = ix.expr.span().byte_range();
                        let ra = a.span().byte_range();
                        let rb = b.span().byte_range();
                        self.push(es.start, bs.start, "vx_substr(&", "E23-string-slice-as-declared-stand-in", false);
                        self.push(bs.end, ra.start, ", ", "E23-string-slice-as-declared-stand-in", false);
                        self.push(ra.end, rb.start, ", ", "E23-string-slice-as-declared-stand-in", false);
                        self.push(rb.end, es.end, ")", "E23-string-slice-as-declared-stand-in", false);
                        self.visit_expr(&ix.expr);
                        self.visit_expr(a);
                        self.visit_expr(b);
                        return;
                    }
                }
            }
        }
        visit::visit_expr_reference(self, e);
    }
    fn visit_expr_binary(&mut self, e: &'ast syn::ExprBinary) {
        if self.dir.boolops {
            match &e.op {
                syn::BinOp::BitAnd(t) => {
                    let r = t.span().byte_range();
                    self.push(r.start, r.end, "&&", "E6-boolop", false);
                }
                syn::BinOp::BitOr(t) => {
                    let r = t.span().byte_range();
                    self.push(r.start, r.end, "||", "E6-boolop", false);
                }
                _ => {}
            }
        }
        if self.dir.streq {
            let neg = match &e.op { syn::BinOp::Eq(_) => Some(false), syn::BinOp::Ne(_) => Some(true), _ => None };
            if let Some(neg) = neg {
                let l = e.left.span().byte_range();
                let r = e.right.span().byte_range();
                self.push(l.start, l.start, if neg { "!vx_str_eq(&(" } else { "vx_str_eq(&(" }, "E28-text-comparison", false);
                self.push(l.end, r.start, "), &(", "E28-text-comparison", false);
                self.push(r.end, r.end, "))", "E28-text-comparison", false);
            }
        }
        visit::visit_expr_binary(self, e);
    }
    fn visit_expr_closure(&mut self, c: &'ast syn::ExprClosure) {
        let idx = self.closure_idx;
        self.closure_idx += 1;
        for (j, p) in c.inputs.iter().enumerate() {
            let inner = match p {
                syn::Pat::Type(pt) => &*pt.pat,
                other => other,
            };
            if let syn::Pat::Ident(pi) = inner {
                self.closure_params.push((idx, j, pi.ident.to_string()));
            }
        }
        let start = c.span().byte_range().start;
        let bstart = c.body.span().byte_range().start;
        let bend = c.body.span().byte_range().end;
        let mut header: Option<&String> = self.dir.closures.get(&idx);
        let resolved = self.closures_resolved.get(&idx).cloned();
        if header.is_some() {
            self.closures_used.push(idx);
        } else if let Some((n, _)) = &resolved {
            self.closures_pref_used[*n] += 1;
            header = resolved.as_ref().map(|(_, h)| h);
        } else {
            // text-anchored header: this closure contains the anchor and none of its nested closures does
            let text = &self.src[c.span().byte_range()];
            for (n, (anchor, h)) in self.dir.closures_by_text.iter().enumerate() {
                if text.contains(anchor.as_str()) {
                    let mut inner = NestedClosureTexts { src: self.src, hit: false, anchor };
                    inner.visit_expr(&c.body);
                    if !inner.hit {
                        header = Some(h);
                        self.closures_by_text_used[n] += 1;
                        break;
                    }
                }
            }
        }
        if let Some(h) = header {
            // E25: a "header" of the form `=> expr` REPLACES the whole closure literal by `expr` (a declared
            // stand-in value for a closure that is under contract as a hoisted function of its own)
            if let Some(repl) = h.trim().strip_prefix("=>") {
                let end = c.span().byte_range().end;
                self.push(start, end, repl.trim().to_string(), "E25-closure-replaced-by-declared-value", true);
                self.dropped.push((start, end));
                return;
            }
            // `$k` in a spliced header stands for the name the source gives to parameter k, so that
            // renaming a closure parameter does not invalidate the header
            let mut h = h.trim().to_string();
            for (k, p) in c.inputs.iter().enumerate() {
                let inner = match p {
                    syn::Pat::Type(pt) => &*pt.pat,
                    other => other,
                };
                if let syn::Pat::Ident(pi) = inner {
                    h = h.replace(&format!("${k}"), &pi.ident.to_string());
                }
            }
            self.push(start, bstart, format!("{} ", h), "splice-closure-header", true);
            // E12: pattern parameters are not supported by Verus closures: `|(a, b)| body` becomes
            // `|vx_arg0: T| { let (a, b) = vx_arg0; body }` (the spec header names the parameter)
            let mut destructure = String::new();
            for (k, p) in c.inputs.iter().enumerate() {
                let inner = match p {
                    syn::Pat::Type(pt) => &*pt.pat,
                    other => other,
                };
                if !matches!(inner, syn::Pat::Ident(_) | syn::Pat::Wild(_)) {
                    let r = inner.span().byte_range();
                    destructure.push_str(&format!("let {} = vx_arg{k}; ", &self.src[r]));
                }
            }
            if !destructure.is_empty() {
                self.push(bstart, bstart, format!("{{ {destructure}"), "E12-closure-destructure", false);
                self.push(bend, bend, " }", "E12-closure-destructure", false);
            } else if !matches!(*c.body, syn::Expr::Block(_)) {
                self.push(bstart, bstart, "{ ", "splice-closure-brace", false);
                self.push(bend, bend, " }", "splice-closure-brace", false);
            }
            // only the body is visited: the header is replaced wholesale
            self.visit_expr(&c.body);
        } else if !self.dir.noautopred && c.asyncness.is_none() && self.bool_pred_closures.contains(&start) && pure_pred_body(&c.body) {
            // E27: a predicate closure without a header whose body is one side-effect free expression gets the header
            // that says exactly what its body says: `|p| body` -> `|a0| -> (o: bool) ensures o == ({ let p = a0; body }) { let p = a0; body }`
            // (the body text is the spec; if it is not expressible as a spec the front end rejects it: undecided, as before)
            let mut names = vec![];
            let mut lets = String::new();
            for (k, p) in c.inputs.iter().enumerate() {
                let inner = match p { syn::Pat::Type(pt) => &*pt.pat, other => other };
                match inner {
                    syn::Pat::Ident(pi) if pi.by_ref.is_none() && pi.subpat.is_none() => names.push(pi.ident.to_string()),
                    _ => {
                        let r = inner.span().byte_range();
                        let pat = self.src[r].to_string();
                        names.push(format!("vx_a{k}"));
                        lets.push_str(&format!("let {pat} = vx_a{k}; "));
                    }
                }
            }
            let body_src = self.src[bstart..bend].to_string();
            // the copy of the body that serves as the specification: `.is_empty()` (an exec function of Vec / str / String /
            // slices that Verus does not read in specifications) is spelled as the spec function of the same meaning
            let spec_src = body_src.replace(".is_empty()", ".vx_spec_is_empty()");
            let end = c.span().byte_range().end;
            self.push(start, end, format!("|{}| -> (vx_o: bool) ensures vx_o == ({{ {lets}{spec_src} }}) {{ {lets}{body_src} }}", names.join(", ")), "E27-predicate-closure-specified-by-its-own-body", true);
            self.auto_pred_headers += 1;
        } else {
            self.closures_unspecified += 1;
            if c.asyncness.is_some() {
                self.errors.push(format!("async closure at line {}", line_of(self.src, start)));
            }
            self.in_closure_inputs = true;
            for p in &c.inputs {
                self.visit_pat(p);
            }
            self.in_closure_inputs = false;
            self.visit_expr(&c.body);
        }
    }
    fn visit_pat_wild(&mut self, p: &'ast syn::PatWild) {
        if self.in_closure_inputs {
            let r = p.span().byte_range();
            self.wild_n += 1;
            self.push(r.start, r.end, format!("_vx_p{}", self.wild_n), "E5-closure-wild", false);
        }
    }
    fn visit_expr_for_loop(&mut self, l: &'ast syn::ExprForLoop) {
        // E29: the whole loop is replaced by its rendering (nested loops included); nothing inside is visited
        if self.dir.unchain {
            if let Some(mut text) = self.unchain_for(l) {
                // generated loops are numbered from the innermost outwards
                let pats = self.genloop_pats.clone();
                for (j, pj) in pats.iter().rev() {
                    text = text.replace(&format!("$pat{j}"), pj);
                }
                let r = l.span().byte_range();
                self.push(r.start, r.end, text, "E29-for-over-mutable-iterators-unchained", true);
                return;
            }
        }
        let idx = self.loop_idx;
        self.loop_idx += 1;
        if let syn::Pat::Ident(pi) = &*l.pat {
            self.loop_vars.push((idx, pi.ident.to_string()));
        }
        if let Some(inv) = self.dir.loops.get(&idx) {
            self.loops_used.push(idx);
            let b = l.body.span().byte_range().start;
            // optional first line `iter <name>`: names the ghost iterator (`for x in name: expr`)
            let mut inv_text = inv.trim_end().to_string();
            let first = inv_text.lines().next().unwrap_or("").trim().to_string();
            if let Some(name) = first.strip_prefix("iter ") {
                let e = l.expr.span().byte_range().start;
                self.push(e, e, format!("{}: ", name.trim()), "splice-loop-iter-name", false);
                inv_text = inv_text.lines().skip(1).collect::<Vec<_>>().join("\n");
            }
            self.push(b, b, format!("\n{}\n", inv_text), "splice-loop-invariant", false);
        }
        if let Some(t) = self.dir.loop_begin.get(&idx) {
            let b = l.body.span().byte_range().start + 1;
            self.push(b, b, format!("\n{}\n", t.trim_end()), "splice-loop-ghost", false);
        }
        if let Some(t) = self.dir.loop_end.get(&idx) {
            let e = l.body.span().byte_range().end - 1;
            self.push(e, e, format!("\n{}\n", t.trim_end()), "splice-loop-ghost", false);
        }
        visit::visit_expr_for_loop(self, l);
    }
    fn visit_expr_while(&mut self, l: &'ast syn::ExprWhile) {
        let idx = self.loop_idx;
        self.loop_idx += 1;
        if let Some(inv) = self.dir.loops.get(&idx) {
            self.loops_used.push(idx);
            let b = l.body.span().byte_range().start;
            self.push(b, b, format!("\n{}\n", inv.trim_end()), "splice-loop-invariant", false);
        }
        if let Some(t) = self.dir.loop_begin.get(&idx) {
            let b = l.body.span().byte_range().start + 1;
            self.push(b, b, format!("\n{}\n", t.trim_end()), "splice-loop-ghost", false);
        }
        if let Some(t) = self.dir.loop_end.get(&idx) {
            let e = l.body.span().byte_range().end - 1;
            self.push(e, e, format!("\n{}\n", t.trim_end()), "splice-loop-ghost", false);
        }
        visit::visit_expr_while(self, l);
    }
    fn visit_expr_loop(&mut self, l: &'ast syn::ExprLoop) {
        let idx = self.loop_idx;
        self.loop_idx += 1;
        if let Some(inv) = self.dir.loops.get(&idx) {
            self.loops_used.push(idx);
            let b = l.body.span().byte_range().start;
            self.push(b, b, format!("\n{}\n", inv.trim_end()), "splice-loop-invariant", false);
        }
        if let Some(t) = self.dir.loop_begin.get(&idx) {
            let b = l.body.span().byte_range().start + 1;
            self.push(b, b, format!("\n{}\n", t.trim_end()), "splice-loop-ghost", false);
        }
        if let Some(t) = self.dir.loop_end.get(&idx) {
            let e = l.body.span().byte_range().end - 1;
            self.push(e, e, format!("\n{}\n", t.trim_end()), "splice-loop-ghost", false);
        }
        visit::visit_expr_loop(self, l);
    }
    fn visit_macro(&mut self, m: &'ast syn::Macro) {
        let name = m.path.segments.last().map(|s| s.ident.to_string()).unwrap_or_default();
        let r = m.span().byte_range();
        for (k, (n, repl)) in self.dir.macros.iter().enumerate() {
            if *n == name {
                self.macros_used[k] = true;
                // `$fmtarg` = the first value the format string of the macro displays: an inline
                // capture `{name}`, else the first argument after the format string
                let mut repl = repl.clone();
                // `$macroargs` = the argument tokens of the macro invocation, as written
                if repl.contains("$macroargs") {
                    let t = m.tokens.to_string();
                    let args = match (m.tokens.clone().into_iter().next(), m.tokens.clone().into_iter().last()) {
                        (Some(a), Some(b)) => self.src[a.span().byte_range().start..b.span().byte_range().end].to_string(),
                        _ => t,
                    };
                    repl = repl.replace("$macroargs", &args);
                }
                if repl.contains("$fmtarg") {
                    let text = &self.src[r.clone()];
                    let mut arg: Option<String> = None;
                    let bytes = text.as_bytes();
                    let mut i = 0;
                    while i < bytes.len() && arg.is_none() {
                        if bytes[i] == b'{' {
                            let j = i + 1;
                            let mut e = j;
                            while e < bytes.len() && ((bytes[e] as char).is_alphanumeric() || bytes[e] == b'_') {
                                e += 1;
                            }
                            if e > j && e < bytes.len() && (bytes[e] == b'}' || bytes[e] == b':') && !(bytes[j] as char).is_numeric() {
                                arg = Some(text[j..e].to_string());
                            }
                        }
                        i += 1;
                    }
                    if arg.is_none() {
                        if let Ok(args) = m.parse_body_with(syn::punctuated::Punctuated::<syn::Expr, syn::Token![,]>::parse_terminated) {
                            if let Some(a) = args.iter().nth(1) {
                                arg = Some(self.src[a.span().byte_range()].to_string());
                            }
                        }
                    }
                    match arg {
                        Some(a) => repl = repl.replace("$fmtarg", &a),
                        None => self.errors.push(format!("@@macro {name}: no displayed value found for $fmtarg")),
                    }
                }
                self.push(r.start, r.end, repl, "E7-macro-declared", true);
                return;
            }
        }
        if name == "vec" {
            // `vec![a, b]`: the elements are ordinary expressions — visit them so that the
            // automatic edits (format!, .await, attributes, ...) apply inside as well
            if let Ok(elems) = m.parse_body_with(syn::punctuated::Punctuated::<syn::Expr, syn::Token![,]>::parse_terminated) {
                for e in &elems {
                    Visit::visit_expr(self, e);
                }
            }
            return;
        }
        match name.as_str() {
            "debug_assert" | "debug_assert_eq" | "debug_assert_ne" | "pin_mut" => {
                self.push(r.start, r.end, "()", "E7-macro-dropped", true);
            }
            "format" => {
                self.push(r.start, r.end, "vx_opaque_string()", "E7-format-opaque", true);
            }
            _ => {}
        }
    }
}

fn apply_edits(src: &str, lo: usize, hi: usize, edits: &[Edit], counts: &mut BTreeMap<String, usize>) -> Result<String, String> {
    let mut es: Vec<&Edit> = edits.iter().filter(|e| e.start >= lo && e.end <= hi).collect();
    es.sort_by_key(|e| (e.start, if e.start == e.end { 0 } else { 1 }, std::cmp::Reverse(e.end)));
    let mut out = String::new();
    let mut pos = lo;
    let mut swallow_until = lo;
    for e in es {
        if e.start < swallow_until && e.end <= swallow_until {
            // nested inside a swallowing edit
            continue;
        }
        if e.start < pos {
            return Err(format!(
                "overlapping edits at line {} ({}, {}..{})",
                line_of(src, e.start),
                e.kind,
                e.start,
                e.end
            ));
        }
        out.push_str(&src[pos..e.start]);
        out.push_str(&e.text);
        pos = e.end;
        if e.swallow {
            swallow_until = e.end;
        }
        *counts.entry(e.kind.to_string()).or_insert(0) += 1;
    }
    out.push_str(&src[pos..hi]);
    Ok(out)
}

// ------------------------------------------------------------------------------------------------
// finding functions and items

struct FoundFn<'a> {
    attrs: &'a [syn::Attribute],
    sig: &'a syn::Signature,
    block: &'a syn::Block,
}

/// E27: the body is ONE expression built from paths, literals, field accesses, method calls without closures,
/// operators, references, tuples, parentheses — no statements, `?`, `return`, macros, closures, assignments
fn pure_pred_body(e: &syn::Expr) -> bool {
    struct P { ok: bool }
    impl<'ast> Visit<'ast> for P {
        fn visit_expr(&mut self, e: &'ast syn::Expr) {
            match e {
                syn::Expr::Path(_) | syn::Expr::Lit(_) | syn::Expr::Field(_) | syn::Expr::MethodCall(_) | syn::Expr::Binary(_)
                | syn::Expr::Unary(_) | syn::Expr::Reference(_) | syn::Expr::Paren(_) | syn::Expr::Tuple(_) | syn::Expr::Index(_)
                | syn::Expr::Call(_) | syn::Expr::Cast(_) => visit::visit_expr(self, e),
                _ => self.ok = false,
            }
        }
    }
    let mut p = P { ok: true };
    p.visit_expr(e);
    p.ok
}
fn type_last_ident(t: &syn::Type) -> Option<String> {
    match t {
        syn::Type::Path(p) => p.path.segments.last().map(|s| s.ident.to_string()),
        syn::Type::Reference(r) => type_last_ident(&r.elem),
        _ => None,
    }
}

fn collect_fns<'a>(items: &'a [syn::Item], sel: &Sel, out: &mut Vec<FoundFn<'a>>) {
    for it in items {
        match it {
            syn::Item::Mod(m) => {
                if let Some((_, its)) = &m.content {
                    // skip #[cfg(test)] modules
                    let is_test = m.attrs.iter().any(|a| {
                        a.path().is_ident("cfg")
                            && matches!(&a.meta, syn::Meta::List(l) if l.tokens.to_string().contains("test"))
                    });
                    if !is_test {
                        collect_fns(its, sel, out);
                    }
                }
            }
            syn::Item::Fn(f) => {
                if sel.kind == SelKind::Free && f.sig.ident == sel.name {
                    out.push(FoundFn { attrs: &f.attrs, sig: &f.sig, block: &f.block });
                }
            }
            syn::Item::Trait(t) => {
                if sel.kind == SelKind::TraitDefault && t.ident == sel.ty {
                    for ti in &t.items {
                        if let syn::TraitItem::Fn(f) = ti {
                            if f.sig.ident == sel.name {
                                if let Some(b) = &f.default {
                                    out.push(FoundFn { attrs: &f.attrs, sig: &f.sig, block: b });
                                }
                            }
                        }
                    }
                }
            }
            syn::Item::Impl(im) => {
                if sel.kind != SelKind::Impl {
                    continue;
                }
                if type_last_ident(&im.self_ty).as_deref() != Some(sel.ty.as_str()) {
                    continue;
                }
                let tr = im.trait_.as_ref().and_then(|(_, p, _)| p.segments.last().map(|s| s.ident.to_string()));
                match (&sel.tr, &tr) {
                    (Some(want), Some(have)) if want == have => {}
                    (Some(_), _) => continue,
                    (None, _) => {}
                }
                for ii in &im.items {
                    if let syn::ImplItem::Fn(f) = ii {
                        if f.sig.ident == sel.name {
                            out.push(FoundFn { attrs: &f.attrs, sig: &f.sig, block: &f.block });
                        }
                    }
                }
            }
            _ => {}
        }
    }
}

#[derive(PartialEq, Eq, Debug)]
enum SelKind {
    Free,
    TraitDefault,
    Impl,
}
#[derive(Debug)]
struct Sel {
    kind: SelKind,
    tr: Option<String>,
    ty: String,
    name: String,
    nth: Option<usize>,
}

fn parse_selector(s: &str, ctx: &str) -> Sel {
    let (s, nth) = match s.rsplit_once('#') {
        Some((a, n)) => (a.trim(), Some(n.trim().parse::<usize>().unwrap_or_else(|_| die(&format!("{ctx}: bad #n"))))),
        None => (s, None),
    };
    if let Some(n) = s.strip_prefix("free ") {
        return Sel { kind: SelKind::Free, tr: None, ty: String::new(), name: n.trim().into(), nth };
    }
    if let Some(r) = s.strip_prefix("trait ") {
        let (t, n) = r.split_once("::").unwrap_or_else(|| die(&format!("{ctx}: bad selector {s}")));
        return Sel { kind: SelKind::TraitDefault, tr: None, ty: t.trim().into(), name: n.trim().into(), nth };
    }
    let (tr, rest) = match s.split_once(" for ") {
        Some((t, r)) => (Some(t.trim().to_string()), r.trim()),
        None => (None, s),
    };
    let (t, n) = rest.rsplit_once("::").unwrap_or_else(|| die(&format!("{ctx}: bad selector {s}")));
    Sel { kind: SelKind::Impl, tr, ty: t.trim().into(), name: n.trim().into(), nth }
}

fn find_item<'a>(items: &'a [syn::Item], name: &str) -> Option<&'a syn::Item> {
    for it in items {
        let id = match it {
            syn::Item::Struct(s) => Some(s.ident.to_string()),
            syn::Item::Enum(s) => Some(s.ident.to_string()),
            syn::Item::Type(s) => Some(s.ident.to_string()),
            syn::Item::Const(s) => Some(s.ident.to_string()),
            syn::Item::Mod(m) => {
                if let Some((_, its)) = &m.content {
                    if let Some(f) = find_item(its, name) {
                        return Some(f);
                    }
                }
                None
            }
            _ => None,
        };
        if id.as_deref() == Some(name) {
            return Some(it);
        }
    }
    None
}

// ------------------------------------------------------------------------------------------------
// block search for slices

struct BlockFinder<'ast, 'b> {
    src: &'b str,
    from: &'b str,
    /// how many matching blocks to skip first (`@@block #k anchor`)
    skip: usize,
    found: Option<&'ast syn::Block>,
}
impl<'ast, 'b> Visit<'ast> for BlockFinder<'ast, 'b> {
    fn visit_block(&mut self, b: &'ast syn::Block) {
        if self.found.is_some() {
            return;
        }
        // innermost block first (matters for `~contains` anchors)
        visit::visit_block(self, b);
        if self.found.is_some() {
            return;
        }
        for s in &b.stmts {
            let r = s.span().byte_range();
            if anchor_match(stmt_text_no_attrs(self.src, s, r.start, r.end), self.from) {
                if self.skip > 0 {
                    self.skip -= 1;
                    break;
                }
                self.found = Some(b);
                return;
            }
        }
    }
}

/// the first identifier bound by the first `let` statement (anywhere in the function) matching an anchor
struct LetFinder<'b> {
    src: &'b str,
    anchor: &'b str,
    nth: usize,
    /// how many matching binders to skip first (`$name#k@j`: the j-th match)
    skip: usize,
    found: Option<String>,
}
impl<'ast, 'b> Visit<'ast> for LetFinder<'b> {
    fn visit_stmt(&mut self, s: &'ast syn::Stmt) {
        if self.found.is_some() {
            return;
        }
        if let syn::Stmt::Local(l) = s {
            let r = s.span().byte_range();
            if anchor_match(stmt_text_no_attrs(self.src, s, r.start, r.end), self.anchor) {
                let mut ids = vec![];
                collect_pat_idents(&l.pat, &mut ids);
                // (an occurrence counts whether or not its pattern binds enough identifiers)
                if self.skip > 0 {
                    self.skip -= 1;
                } else if let Some(id) = ids.get(self.nth) {
                    self.found = Some(id.clone());
                    return;
                }
            }
        }
        visit::visit_stmt(self, s);
    }
    /// `for PAT in EXPR { .. }`: matched on the text of the loop header
    fn visit_expr_for_loop(&mut self, l: &'ast syn::ExprForLoop) {
        if self.found.is_none() {
            let start = l.for_token.span().byte_range().start;
            let end = l.body.span().byte_range().start;
            if anchor_match(self.src[start..end].trim(), self.anchor) {
                let mut ids = vec![];
                collect_pat_idents(&l.pat, &mut ids);
                // (an occurrence counts whether or not its pattern binds enough identifiers)
                if self.skip > 0 {
                    self.skip -= 1;
                } else if let Some(id) = ids.get(self.nth) {
                    self.found = Some(id.clone());
                    return;
                }
            }
        }
        visit::visit_expr_for_loop(self, l);
    }
    /// `|PARAMS| BODY`: matched on the text of the closure; the identifiers its parameters bind
    fn visit_expr_closure(&mut self, c: &'ast syn::ExprClosure) {
        // inner closures first (the innermost closure containing the anchor text wins)
        visit::visit_expr_closure(self, c);
        if self.found.is_none() && self.anchor.starts_with("|") {
            let r = c.span().byte_range();
            if self.src[r].contains(self.anchor.trim_start_matches('|').trim_start_matches('~').trim()) {
                let mut ids = vec![];
                for p in &c.inputs {
                    collect_pat_idents(p, &mut ids);
                }
                if self.skip > 0 {
                    self.skip -= 1;
                } else if let Some(id) = ids.get(self.nth) {
                    self.found = Some(id.clone());
                }
            }
        }
    }
    /// `if let PAT = EXPR` / `while let PAT = EXPR`: matched on the text of `PAT = EXPR`
    fn visit_expr_let(&mut self, l: &'ast syn::ExprLet) {
        if self.found.is_none() {
            let r = l.span().byte_range();
            if anchor_match(&self.src[r], self.anchor) || anchor_match(&self.src[l.expr.span().byte_range()], self.anchor) {
                let mut ids = vec![];
                collect_pat_idents(&l.pat, &mut ids);
                // (an occurrence counts whether or not its pattern binds enough identifiers)
                if self.skip > 0 {
                    self.skip -= 1;
                } else if let Some(id) = ids.get(self.nth) {
                    self.found = Some(id.clone());
                    return;
                }
            }
        }
        visit::visit_expr_let(self, l);
    }
}

/// statement text with leading attributes / doc comments / line comments skipped (anchors match code)
fn stmt_text_no_attrs<'s>(src: &'s str, s: &syn::Stmt, start: usize, end: usize) -> &'s str {
    let mut st = start;
    let attrs: &[syn::Attribute] = match s {
        syn::Stmt::Local(l) => &l.attrs,
        syn::Stmt::Macro(m) => &m.attrs,
        syn::Stmt::Item(syn::Item::Static(i)) => &i.attrs,
        syn::Stmt::Item(syn::Item::Const(i)) => &i.attrs,
        _ => &[],
    };
    for a in attrs {
        let e = a.span().byte_range().end;
        if e > st && e <= end {
            st = e;
        }
    }
    src[st..end].trim_start()
}

/// (method, position) of every method call
struct MethodCallLister {
    all: Vec<(String, usize)>,
}
impl<'ast> Visit<'ast> for MethodCallLister {
    fn visit_expr_method_call(&mut self, e: &'ast syn::ExprMethodCall) {
        self.all.push((e.method.to_string(), e.method.span().byte_range().start));
        visit::visit_expr_method_call(self, e);
    }
}

/// all closures of a block in visiting order: (span, spans of the closures nested inside)
struct ClosureLister {
    all: Vec<(usize, usize)>,
}
impl<'ast> Visit<'ast> for ClosureLister {
    fn visit_expr_closure(&mut self, c: &'ast syn::ExprClosure) {
        let r = c.span().byte_range();
        self.all.push((r.start, r.end));
        visit::visit_expr_closure(self, c);
    }
}

/// `@@hoist k ~text`: ordinal of the innermost closure of the block containing `text` (if unique), else k
fn resolve_hoist(block: &syn::Block, src: &str, k: usize, text: &Option<String>) -> usize {
    if let Some(t) = text {
        // `~text#j`: the j-th (0-based, in source order) of the innermost closures containing `text`
        // (for textually identical closures: robust against closures added or removed elsewhere)
        let (t, nth) = match t.rsplit_once('#') {
            Some((a, j)) if !j.is_empty() && j.chars().all(|c| c.is_ascii_digit()) => (a.trim_end().to_string(), j.parse::<usize>().ok()),
            _ => (t.clone(), None),
        };
        let t = &t;
        let mut cl = ClosureLister { all: vec![] };
        cl.visit_block(block);
        let cands: Vec<usize> = (0..cl.all.len())
            .filter(|&i| {
                let (s, e) = cl.all[i];
                src[s..e].contains(t.as_str()) && !cl.all.iter().any(|&(s2, e2)| s2 > s && e2 <= e && src[s2..e2].contains(t.as_str()))
            })
            .collect();
        if cands.len() == 1 && nth.is_none() {
            return cands[0];
        }
        if let Some(j) = nth {
            if let Some(c) = cands.get(j) {
                return *c;
            }
            // fewer such closures than expected: an ordinal no closure has (the directive loses its anchor)
            return usize::MAX;
        }
    }
    k
}

/// does any closure nested in the visited expression contain the anchor text?
struct NestedClosureTexts<'a> {
    src: &'a str,
    anchor: &'a str,
    hit: bool,
}
impl<'ast, 'a> Visit<'ast> for NestedClosureTexts<'a> {
    fn visit_expr_closure(&mut self, c: &'ast syn::ExprClosure) {
        if self.src[c.span().byte_range()].contains(self.anchor) {
            self.hit = true;
        }
    }
}

struct ClosureFinder<'ast> {
    want: usize,
    seen: usize,
    found: Option<&'ast syn::ExprClosure>,
}
impl<'ast> Visit<'ast> for ClosureFinder<'ast> {
    fn visit_expr_closure(&mut self, c: &'ast syn::ExprClosure) {
        if self.seen == self.want && self.found.is_none() {
            self.found = Some(c);
        }
        self.seen += 1;
        visit::visit_expr_closure(self, c);
    }
}

// ------------------------------------------------------------------------------------------------
// main

/// `impl Iterator<Item = X> [+ ..]` -> source text of X
fn impl_iterator_item(ty: &syn::Type, src: &str) -> Option<String> {
    if let syn::Type::ImplTrait(it) = ty {
        for b in &it.bounds {
            if let syn::TypeParamBound::Trait(tb) = b {
                let seg = tb.path.segments.last()?;
                if seg.ident == "Iterator" {
                    if let syn::PathArguments::AngleBracketed(ab) = &seg.arguments {
                        for a in &ab.args {
                            if let syn::GenericArgument::AssocType(at) = a {
                                if at.ident == "Item" {
                                    return Some(src[at.ty.span().byte_range()].to_string());
                                }
                            }
                        }
                    }
                }
            }
        }
    }
    None
}

fn main() {
    let args: Vec<String> = std::env::args().collect();
    let mut repo = PathBuf::from("/repo");
    let mut tpl: Option<PathBuf> = None;
    let mut out: Option<PathBuf> = None;
    let mut map: Option<PathBuf> = None;
    let mut canary = false;
    let mut stubs: Vec<String> = vec![];
    let mut nospec = false;
    let mut variants: HashMap<String, usize> = HashMap::new();
    let mut param_names: HashMap<String, Vec<String>> = HashMap::new();
    let mut i = 1;
    while i < args.len() {
        match args[i].as_str() {
            "--repo" => {
                repo = PathBuf::from(&args[i + 1]);
                i += 2;
            }
            "--out" => {
                out = Some(PathBuf::from(&args[i + 1]));
                i += 2;
            }
            "--map" => {
                map = Some(PathBuf::from(&args[i + 1]));
                i += 2;
            }
            "--canary" => {
                canary = true;
                i += 1;
            }
            "--variant" => {
                for kv in args[i + 1].split("%%") {
                    if let Some((k, v)) = kv.rsplit_once('=') {
                        variants.insert(k.to_string(), v.parse().unwrap_or(0));
                    }
                }
                i += 2;
            }
            "--nospec" => {
                nospec = true;
                i += 1;
            }
            "--params" => {
                // JSON object: directive key -> parameter names of the function on the unchanged tree (units/baseline.json)
                if let Ok(t) = fs::read_to_string(&args[i + 1]) {
                    if let Ok(serde_json::Value::Object(o)) = serde_json::from_str::<serde_json::Value>(&t) {
                        for (k, v) in o {
                            if let Some(a) = v.as_array() {
                                param_names.insert(k, a.iter().map(|x| x.as_str().unwrap_or("").to_string()).collect());
                            }
                        }
                    }
                }
                i += 2;
            }
            "--stub" => {
                stubs = args[i + 1].split("%%").map(|x| x.trim().to_string()).filter(|x| !x.is_empty()).collect();
                i += 2;
            }
            a => {
                tpl = Some(PathBuf::from(a));
                i += 1;
            }
        }
    }
    let tpl = tpl.unwrap_or_else(|| die("usage: vx <template> --out <file.rs> --map <file.json> [--repo /repo] [--canary]"));
    let out = out.unwrap_or_else(|| die("--out missing"));

    let mut nodes = vec![];
    parse_template(&tpl, &mut nodes);

    let mut srcs: HashMap<String, Src> = HashMap::new();
    for n in &nodes {
        let f = match n {
            Node::Item(d) => &d.file,
            Node::Func(d) => &d.file,
            _ => continue,
        };
        if !srcs.contains_key(f) {
            let p = repo.join(f);
            let text = fs::read_to_string(&p).unwrap_or_else(|e| die(&format!("cannot read {}: {e}", p.display())));
            let ast = syn::parse_file(&text).unwrap_or_else(|e| die(&format!("cannot parse {}: {e}", p.display())));
            srcs.insert(f.clone(), Src { text, ast });
        }
    }

    let mut output = String::new();
    let mut last_text_fn = String::new();
    // where in `output` the head of that wrapper starts (placeholders of `@@bind` are resolved there too)
    let mut last_text_fn_at: usize = 0;
    let mut pending_tail_subst: Vec<(String, String)> = vec![];
    let mut skip_wrapper_tail = false;
    let mut stubbed: Vec<String> = vec![];
    let mut fn_maps: Vec<serde_json::Value> = vec![];
    let mut item_maps: Vec<serde_json::Value> = vec![];
    let cur_line = |o: &String| o.bytes().filter(|b| *b == b'\n').count() + 1;

    for (node_idx, n) in nodes.iter().enumerate() {
        match n {
            Node::Text(t) => {
                if skip_wrapper_tail {
                    // the slice before this text was stubbed (`return vx_stub_diverge();`): the
                    // hand-written tail of its wrapper may mention variables the slice no longer
                    // binds, and is unreachable anyway — dropped up to the wrapper's closing brace
                    skip_wrapper_tail = false;
                    // (the wrapper's closing brace is the first `}` at the start of a line; the text
                    // may begin with it when the wrapper has no tail at all)
                    let close = if t.starts_with('}') { Some(0) } else { t.find("\n}") };
                    match close {
                        Some(0) => {
                            output.push_str("    // vx: hand-written tail of the wrapper dropped (slice stubbed)\n");
                            output.push_str(t);
                        }
                        Some(p) => {
                            output.push_str("    // vx: hand-written tail of the wrapper dropped (slice stubbed)");
                            output.push_str(&t[p..]);
                        }
                        None => output.push_str(t),
                    }
                } else if !pending_tail_subst.is_empty() {
                    let cut = t.find("\n}").unwrap_or(t.len());
                    let mut head = t[..cut].to_string();
                    for (ph, name) in &pending_tail_subst {
                        head = head.replace(ph.as_str(), name);
                    }
                    pending_tail_subst.clear();
                    output.push_str(&head);
                    output.push_str(&t[cut..]);
                } else {
                    output.push_str(t);
                }
                // remember the last hand-written `fn name` (wrapper of the slices that follow)
                let text_base = output.len().saturating_sub(t.len());
                for (pos, _) in t.match_indices("fn ") {
                    let rest = &t[pos + 3..];
                    let name: String = rest.chars().take_while(|c| c.is_alphanumeric() || *c == '_').collect();
                    let before_ok = pos == 0 || !t[..pos].chars().last().map(|c| c.is_alphanumeric() || c == '_').unwrap_or(false);
                    let line_start = t[..pos].rfind('\n').map(|p| p + 1).unwrap_or(0);
                    let is_comment = t[line_start..pos].trim_start().starts_with("//");
                    if before_ok && !name.is_empty() && !is_comment {
                        last_text_fn = name;
                        last_text_fn_at = text_base + line_start;
                    }
                }
            }
            Node::Item(d) => {
                let ctx = format!("{}:{} @@item {} {}", d.tpl_file, d.tpl_line, d.file, d.name);
                let src = &srcs[&d.file];
                let it = find_item(&src.ast.items, &d.name).unwrap_or_else(|| die(&format!("{ctx}: item not found")));
                let r = it.span().byte_range();
                let dummy = FnDir::default();
                let mut ed = Ed::new(&src.text, &dummy);
                ed.derive_keep = Some(d.derive.clone().unwrap_or_else(|| "Clone, Copy, PartialEq, Eq".into()));
                ed.visit_item(it);
                ed.finish_cfg();
                // E13: visibility widened to `pub` (specifications mention private fields / types)
                {
                    let mut pubs: Vec<usize> = vec![];
                    let inherited = |v: &syn::Visibility| matches!(v, syn::Visibility::Inherited);
                    match it {
                        syn::Item::Struct(st) => {
                            if inherited(&st.vis) {
                                pubs.push(st.struct_token.span().byte_range().start);
                            }
                            for f in &st.fields {
                                if inherited(&f.vis) {
                                    let p = match &f.ident {
                                        Some(id) => id.span().byte_range().start,
                                        None => f.ty.span().byte_range().start,
                                    };
                                    pubs.push(p);
                                }
                            }
                        }
                        syn::Item::Enum(en) => {
                            if inherited(&en.vis) {
                                pubs.push(en.enum_token.span().byte_range().start);
                            }
                        }
                        syn::Item::Type(t) => {
                            if inherited(&t.vis) {
                                pubs.push(t.type_token.span().byte_range().start);
                            }
                        }
                        syn::Item::Const(t) => {
                            if inherited(&t.vis) {
                                pubs.push(t.const_token.span().byte_range().start);
                            }
                        }
                        _ => {}
                    }
                    for p in pubs {
                        ed.push(p, p, "pub ", "E13-pub", false);
                    }
                }
                if !ed.errors.is_empty() {
                    die(&format!("{ctx}: {}", ed.errors.join("; ")));
                }
                let mut counts = BTreeMap::new();
                let mut text = apply_edits(&src.text, r.start, r.end, &ed.edits, &mut counts).unwrap_or_else(|e| die(&format!("{ctx}: {e}")));
                for (a, b) in &d.substs {
                    if !text.contains(a.as_str()) {
                        die(&format!("{ctx}: @@isubst pattern not found: {a}"));
                    }
                    text = text.replace(a.as_str(), b);
                    *counts.entry("subst-declared".into()).or_insert(0) += 1;
                }
                let text = squeeze_blank_lines(&text);
                let l0 = cur_line(&output);
                output.push_str(&format!("// vx:item {} {} (src lines {}-{})\n", d.file, d.name, line_of(&src.text, r.start), line_of(&src.text, r.end)));
                for a in &d.attrs {
                    output.push_str(a);
                    output.push('\n');
                }
                output.push_str(text.trim_start());
                output.push('\n');
                item_maps.push(serde_json::json!({
                    "name": d.name, "file": d.file,
                    "src_lines": [line_of(&src.text, r.start), line_of(&src.text, r.end)],
                    "out_lines": [l0, cur_line(&output)],
                    "edits": counts,
                }));
            }
            Node::Func(d0) => {
                let key_sel = if d0.is_slice {
                    slice_key(&d0.selector, d0.from.as_deref(), d0.block.as_deref())
                } else if let Some(k) = d0.hoist {
                    format!("{} @hoist:{}", d0.selector, k)
                } else {
                    d0.selector.clone()
                };
                let vsel = variants.get(&key_sel).copied().unwrap_or(0);
                if vsel > d0.alts.len() {
                    die(&format!("{}:{} NO-SUCH-VARIANT {vsel} [key={}]: only {} contract variants", d0.tpl_file, d0.tpl_line, key_sel, 1 + d0.alts.len()));
                }
                let d: &FnDir = if vsel == 0 { d0 } else { &d0.alts[vsel - 1] };
                let n_variants = 1 + d0.alts.len();
                let key0 = if d.is_slice {
                    slice_key(&d.selector, d.from.as_deref(), d.block.as_deref())
                } else if let Some(k) = d.hoist {
                    format!("{} @hoist:{}", d.selector, k)
                } else {
                    d.selector.clone()
                };
                let ctx = format!("{}:{} @@{} {} {} [key={}]", d.tpl_file, d.tpl_line, if d.is_slice { "slice" } else { "fn" }, d.file, d.selector, key0);
                let src = &srcs[&d.file];
                let sel = parse_selector(&d.selector, &ctx);
                let mut found = vec![];
                collect_fns(&src.ast.items, &sel, &mut found);
                let f = match (found.len(), sel.nth) {
                    (0, _) => die(&format!("{ctx}: function not found")),
                    (1, None) => &found[0],
                    (n, Some(k)) if k < n => &found[k],
                    (n, _) => die(&format!("{ctx}: selector is ambiguous ({n} matches) or #n out of range")),
                };
                let _ = f.attrs;
                // --stub: the contract could not be placed on the current text of this function
                // (front-end error in an earlier run): keep the unit checkable by leaving this
                // function unverified; its obligations are reported as UNDECIDED by the driver
                let own_name = d.name.clone().unwrap_or_else(|| f.sig.ident.to_string());
                let stub_key = if d.is_slice {
                    slice_key(&d.selector, d.from.as_deref(), d.block.as_deref())
                } else if let Some(k) = d.hoist {
                    format!("{} @hoist:{}", d.selector, k)
                } else {
                    d.selector.clone()
                };
                let stub_this = !d.is_slice && d.hoist.is_none() && stubs.contains(&stub_key);
                if stub_this {
                    stubbed.push(own_name.clone());
                }
                let hoist_name = d.sig.as_ref().and_then(|sg| sg.find("fn ").map(|p| sg[p + 3..].chars().take_while(|c| c.is_alphanumeric() || *c == '_').collect::<String>())).unwrap_or_default();
                if d.hoist.is_some() && stubs.contains(&stub_key) {
                    stubbed.push(hoist_name.clone());
                    // `$k` placeholders: the closure's own parameter names if it can still be found
                    let mut sg = d.sig.clone().unwrap_or_default();
                    let mut sp = if nospec { String::new() } else { d.spec.clone() };
                    let mut cf = ClosureFinder { want: resolve_hoist(f.block, &src.text, d.hoist.unwrap_or(0), &d.hoist_text), seen: 0, found: None };
                    cf.visit_block(f.block);
                    for k in 0..10 {
                        let mut name = format!("vx_p{k}");
                        if let Some(c) = cf.found {
                            if let Some(p) = c.inputs.iter().nth(k) {
                                let inner = match p { syn::Pat::Type(pt) => &*pt.pat, other => other };
                                if let syn::Pat::Ident(pi) = inner { name = pi.ident.to_string(); }
                            }
                        }
                        sg = sg.replace(&format!("${k}"), &name);
                        sp = sp.replace(&format!("${k}"), &name);
                    }
                    output.push_str(&format!("// vx:fn {} {} (src lines 0-0)\n// vx:STUBBED {} {} — contract kept as ASSUMED, body UNVERIFIED\n#[verifier::external_body]\n{}\n{}{{ unimplemented!() }}\n", d.file, stub_key, d.file, d.selector, sg, sp));
                    fn_maps.push(serde_json::json!({"selector": d.selector, "file": d.file, "slice": false, "name": hoist_name, "stubbed": true,
                        "src_lines": [0,0], "out_lines": [0,0], "awaits_erased": 0, "closures": 0, "loops": 0, "has_requires": false, "edits": {}}));
                    continue;
                }
                if d.is_slice && stubs.contains(&stub_key) {
                    stubbed.push(last_text_fn.clone());
                    // variables bound by top-level `let`s of the slice stay declared for the
                    // hand-written tail of the wrapper (which is unreachable after the stub)
                    let mut lets = String::new();
                    if let Some(from) = d.from.as_deref() {
                        let to = d.to.as_deref().unwrap_or(from);
                        let mut bf = BlockFinder { src: &src.text, from, skip: 0, found: None };
                        bf.visit_block(f.block);
                        if let Some(blk) = bf.found {
                            let mut on = false;
                            for st in &blk.stmts {
                                let r = st.span().byte_range();
                                let t = stmt_text_no_attrs(&src.text, st, r.start, r.end);
                                if !on && anchor_match(t, from) { on = true; }
                                if on {
                                    if let syn::Stmt::Local(l) = st {
                                        let mut ids = vec![];
                                        collect_pat_idents(&l.pat, &mut ids);
                                        // only the variables the hand-written tail of the wrapper mentions
                                        let tail: String = match nodes.get(node_idx + 1) {
                                            Some(Node::Text(t)) => t.split("\n}").next().unwrap_or("").to_string(),
                                            _ => String::new(),
                                        };
                                        for id in ids {
                                            let used = tail.split(|c: char| !(c.is_alphanumeric() || c == '_')).any(|w| w == id);
                                            if used { lets.push_str(&format!("    let {id} = vx_stub_diverge();\n")); }
                                        }
                                    }
                                    if d.to.is_none() || anchor_match(t, to) { if !(from.starts_with('>')) || true { if d.to.is_none() { break; } else if anchor_match(t, to) { break; } } }
                                }
                            }
                        }
                    }
                    let _ = &lets;
                    // `@@bind` placeholders of the wrapper's signature / contract are resolved for a stubbed slice
                    // too (an unresolvable one gets a fresh name: the body is a diverging placeholder anyway)
                    if last_text_fn_at <= output.len() {
                        let mut binds: Vec<(String, String)> = vec![];
                        for (ph, anchor) in &d.binds {
                            let (ph, occ) = match ph.split_once('@') { Some((p, j)) => (p.to_string(), j.parse::<usize>().unwrap_or(0)), None => (ph.clone(), 0) };
                            let (ph, nth) = match ph.split_once('#') { Some((p, k)) => (p.to_string(), k.parse::<usize>().unwrap_or(0)), None => (ph.clone(), 0) };
                            let mut lf = LetFinder { src: &src.text, anchor, nth, skip: occ, found: None };
                            lf.visit_block(f.block);
                            let id = lf.found.unwrap_or_else(|| format!("vx_unbound_{}", ph.trim_start_matches('$')));
                            binds.push((ph, id));
                        }
                        binds.sort_by(|a, b| b.0.len().cmp(&a.0.len()));
                        let mut head = output[last_text_fn_at..].to_string();
                        for (ph, id) in &binds { head = head.replace(ph.as_str(), id); }
                        output.truncate(last_text_fn_at);
                        output.push_str(&head);
                    }
                    output.push_str(&format!("// vx:slice {} {} (src lines 0-0) STUBBED — UNVERIFIED\n    return vx_stub_diverge();\n", d.file, stub_key));
                    skip_wrapper_tail = true;
                    fn_maps.push(serde_json::json!({"selector": d.selector, "file": d.file, "slice": true, "name": last_text_fn, "stubbed": true,
                        "src_lines": [0,0], "out_lines": [0,0], "awaits_erased": 0, "closures": 0, "loops": 0, "has_requires": false, "edits": {}}));
                    continue;
                }
                let mut slice_binds: Vec<(String, String)> = vec![];
                let mut ed = Ed::new(&src.text, d);
                if d.letrecvs.iter().any(|(m, _, _)| m.contains('#')) {
                    let mut ml = MethodCallLister { all: vec![] };
                    ml.visit_block(f.block);
                    ed.letrecv_positions = ml.all;
                }
                if d.hoist.is_none() && !d.is_slice {
                    ed.resolve_closure_prefs(Some(f.block), None);
                }
                let mut counts: BTreeMap<String, usize> = BTreeMap::new();
                let emitted: String;
                let src_range: (usize, usize);
                let mut fn_params: Vec<String> = vec![];
                if let Some(k) = d.hoist {
                    // E11: closure literal #k of the function is emitted as a named function; the
                    // signature is hand-written (closure parameter types are inferred in the source)
                    let k = resolve_hoist(f.block, &src.text, k, &d.hoist_text);
                    let mut cf = ClosureFinder { want: k, seen: 0, found: None };
                    cf.visit_block(f.block);
                    let c = cf.found.unwrap_or_else(|| die(&format!("{ctx}: closure#{k} to hoist not found ({} closures)", cf.seen)));
                    let mut sigt = d.sig.clone().unwrap_or_else(|| die(&format!("{ctx}: @@hoist needs @@sig")));
                    let mut hspec = d.spec.clone();
                    let mut hpre = d.pre.clone();
                    // `$k` = the name the source gives to the closure's parameter k
                    for (k, p) in c.inputs.iter().enumerate() {
                        let inner = match p {
                            syn::Pat::Type(pt) => &*pt.pat,
                            other => other,
                        };
                        if let syn::Pat::Ident(pi) = inner {
                            let name = pi.ident.to_string();
                            sigt = sigt.replace(&format!("${k}"), &name);
                            hspec = hspec.replace(&format!("${k}"), &name);
                            hpre = hpre.replace(&format!("${k}"), &name);
                        } else if let syn::Pat::Wild(_) = inner {
                            // a parameter the closure ignores (`_`): the contract still names it
                            let name = format!("vx_ignored{k}");
                            sigt = sigt.replace(&format!("${k}"), &name);
                            hspec = hspec.replace(&format!("${k}"), &name);
                            hpre = hpre.replace(&format!("${k}"), &name);
                        }
                    }
                    for (k, p) in c.inputs.iter().enumerate() {
                        let inner = match p {
                            syn::Pat::Type(pt) => &*pt.pat,
                            other => other,
                        };
                        if let syn::Pat::Ident(pi) = inner {
                            ed.anchor_names.push((format!("$h{k}"), pi.ident.to_string()));
                        }
                    }
                    ed.resolve_closure_prefs(None, Some(&c.body));
                    ed.visit_expr(&c.body);
                    ed.finish_cfg();
                    check_used(&ed, d, &ctx);
                    let br = c.body.span().byte_range();
                    let mut body = apply_edits(&src.text, br.start, br.end, &ed.edits, &mut counts).unwrap_or_else(|e| die(&format!("{ctx}: {e}")));
                    // `$hk` (in headers of nested closures, in `@@letarg` / `@@post` text) = the name the
                    // source gives to parameter k of the HOISTED closure
                    let mut hpost = d.post.clone();
                    for (k, p) in c.inputs.iter().enumerate() {
                        let inner = match p {
                            syn::Pat::Type(pt) => &*pt.pat,
                            other => other,
                        };
                        if let syn::Pat::Ident(pi) = inner {
                            body = body.replace(&format!("$h{k}"), &pi.ident.to_string());
                            hpost = hpost.replace(&format!("$h{k}"), &pi.ident.to_string());
                        } else if let syn::Pat::Wild(_) = inner {
                            body = body.replace(&format!("$h{k}"), &format!("vx_ignored{k}"));
                            hpost = hpost.replace(&format!("$h{k}"), &format!("vx_ignored{k}"));
                        }
                    }
                    *counts.entry("E11-closure-hoisted".into()).or_insert(0) += 1;
                    let mkh = |sigt: &str, hspec: &str| -> String {
                        match &d.tail {
                            // `@@tail name`: the closure body is bound, `@@post` follows, `name` is the result
                            Some(tn) => format!("{sigt}\n{}{{\n{}        let {tn} = {};\n{}\n        {tn}\n}}\n", hspec, hpre, body, hpost),
                            None => format!("{sigt}\n{}{{\n{}{}\n}}\n", hspec, hpre, body),
                        }
                    };
                    let mut text = mkh(&sigt, &hspec);
                    if canary && !d.nocanary && spec_has_requires(&hspec) && !hoist_name.is_empty() {
                        let csig = replace_fn_name(&sigt, &hoist_name, &format!("{hoist_name}__canary"));
                        text.push_str("// vx:canary — must FAIL: a verified canary means a contradictory precondition\n");
                        text.push_str(&mkh(&csig, &canary_spec(&hspec)));
                    }
                    emitted = text;
                    src_range = (c.span().byte_range().start, br.end);
                } else if d.is_slice {
                    let from = d.from.as_deref().unwrap_or_else(|| die(&format!("{ctx}: @@slice needs @@from")));
                    let to = d.to.as_deref().unwrap_or(from);
                    // `@@block anchor`: the block is the innermost one holding a statement that matches
                    // `anchor`; @@from / @@to are then matched among that block's statements only
                    let block_anchor = d.block.as_deref().unwrap_or(from);
                    // `@@block #k anchor`: the k-th (0-based, in visiting order: inner blocks first) matching block
                    let (block_skip, block_anchor) = match block_anchor.strip_prefix('#') {
                        Some(rest) => {
                            let (k, a) = rest.split_once(' ').unwrap_or((rest, ""));
                            (k.parse::<usize>().unwrap_or(0), a.trim())
                        }
                        None => (0, block_anchor),
                    };
                    let mut bf = BlockFinder { src: &src.text, from: block_anchor, skip: block_skip, found: None };
                    bf.visit_block(f.block);
                    let blk = bf.found.unwrap_or_else(|| die(&format!("{ctx}: @@from / @@block anchor not found: {block_anchor}")));
                    let mut a = None;
                    let mut b = None;
                    let mut empty_slice = false;
                    for (k, s) in blk.stmts.iter().enumerate() {
                        let r = s.span().byte_range();
                        let t = stmt_text_no_attrs(&src.text, s, r.start, r.end);
                        if a.is_none() && from == "^" {
                            // `@@from ^` = the first statement of the block
                            a = Some(0);
                        }
                        if a.is_none() && anchor_match(t, from) {
                            // `>anchor` = the statement following the matching one
                            a = Some(if from.starts_with('>') { k + 1 } else { k });
                            if from.starts_with('>') {
                                continue;
                            }
                        }
                        if a.is_some() && b.is_none() && a.unwrap() <= k && anchor_match(t, to) {
                            // `<anchor` = the statement preceding the matching one
                            if to.starts_with('<') {
                                if k == 0 || k - 1 < a.unwrap() {
                                    if d.allow_empty && k == a.unwrap() {
                                        empty_slice = true;
                                        b = Some(k);
                                        continue;
                                    }
                                    die(&format!("{ctx}: no statement between @@from and the @@to anchor: {to}"));
                                }
                                b = Some(k - 1);
                            } else {
                                b = Some(k);
                            }
                        }
                    }
                    let mut a = a;
                    if a.map_or(false, |a| a >= blk.stmts.len()) {
                        if d.allow_empty && to == "$" {
                            // `@@from >anchor` + `@@to $` + `@@allow_empty`: nothing follows the anchor any more
                            empty_slice = true;
                            a = Some(blk.stmts.len() - 1);
                        } else {
                            die(&format!("{ctx}: no statement follows the @@from anchor: {from}"));
                        }
                    }
                    let a = a.unwrap_or_else(|| die(&format!("{ctx}: @@from anchor not found in the block: {from}")));
                    // `@@to $` = the last statement of the block
                    let b = if d.to.is_none() { a } else if to == "$" { blk.stmts.len() - 1 } else { b.unwrap_or_else(|| die(&format!("{ctx}: @@to anchor not found after @@from: {to}"))) };
                    let lo = if empty_slice && a == blk.stmts.len() - 1 && from.starts_with('>') && to == "$" { blk.stmts[a].span().byte_range().end } else { blk.stmts[a].span().byte_range().start };
                    let hi = if empty_slice { lo } else { blk.stmts[b].span().byte_range().end };
                    // `$firstK` / `$lastK` = K-th identifier bound by the `let` that is the first / last
                    // statement of the slice (also replaced in the hand-written tail of the wrapper)
                    if !empty_slice {
                        for (tag, st) in [("first", &blk.stmts[a]), ("last", &blk.stmts[b])] {
                            if let syn::Stmt::Local(l) = st {
                                let mut ids = vec![];
                                collect_pat_idents(&l.pat, &mut ids);
                                for (k, id) in ids.iter().enumerate() {
                                    slice_binds.push((format!("${tag}{k}"), id.clone()));
                                }
                            }
                        }
                    }
                    let body = if empty_slice {
                        *counts.entry("empty-slice".into()).or_insert(0) += 1;
                        "        // vx: EMPTY slice — no statement between the two anchors\n".to_string()
                    } else {
                        // `@@tail name` on a slice that ends in the block's tail expression: the value is bound
                        // (the binding is the outermost edit at both ends: pushed before / after the visit)
                        let tail_expr = match (&d.tail, &blk.stmts[b]) {
                            (Some(tn), syn::Stmt::Expr(e, None)) => Some((tn.clone(), e.span().byte_range())),
                            (Some(_), _) => die(&format!("{ctx}: @@tail but the slice does not end in a tail expression")),
                            _ => None,
                        };
                        if let Some((tn, r)) = &tail_expr {
                            ed.push(r.start, r.start, format!("let {tn} = "), "splice-tail-binding", false);
                        }
                        ed.before_next_pass(&blk.stmts[a..=b]);
                        for s in &blk.stmts[a..=b] {
                            ed.visit_stmt(s);
                        }
                        if let Some((_, r)) = &tail_expr {
                            ed.push(r.end, r.end, ";", "splice-tail-binding", false);
                        }
                        ed.finish_cfg();
                        check_used(&ed, d, &ctx);
                        apply_edits(&src.text, lo, hi, &ed.edits, &mut counts).unwrap_or_else(|e| die(&format!("{ctx}: {e}")))
                    };
                    emitted = format!("{}{}\n{}", d.pre, body, d.post);
                    src_range = (lo, hi);
                } else {
                    // signature edits
                    let sig = f.sig;
                    let sig_lo = sig.span().byte_range().start;
                    let blk_r = f.block.span().byte_range();
                    let sig_hi = blk_r.start;
                    if let Some(a) = &sig.asyncness {
                        let r = a.span().byte_range();
                        ed.push(r.start, r.end, "", "E3-async-fn", false);
                    }
                    if let Some(nm) = &d.name {
                        let r = sig.ident.span().byte_range();
                        ed.push(r.start, r.end, nm.clone(), "rename-declared", false);
                    }
                    if let Some(g) = &d.generics {
                        let g = g.trim().trim_start_matches('<').trim_end_matches('>').trim().to_string();
                        if let Some(lt) = &sig.generics.lt_token {
                            let p = lt.span().byte_range().end;
                            ed.push(p, p, format!("{g}, "), "E9-method-generics", false);
                        } else {
                            let p = sig.ident.span().byte_range().end;
                            ed.push(p, p, format!("<{g}>"), "E9-method-generics", false);
                        }
                    }
                    if d.refmutself {
                        match sig.inputs.first() {
                            Some(syn::FnArg::Receiver(rc)) if rc.reference.is_none() && rc.mutability.is_none() => {
                                let r = rc.self_token.span().byte_range();
                                let t = match &d.refmutself_lt { Some(lt) => format!("&{lt} mut "), None => "&mut ".to_string() };
                                ed.push(r.start, r.start, t, "E9-receiver-of-impl-for-mut-ref", false);
                            }
                            _ => die(&format!("{ctx}: @@refmutself but receiver is not a plain `self`")),
                        }
                    }
                    if d.mutself {
                        match sig.inputs.first() {
                            Some(syn::FnArg::Receiver(rc)) if rc.reference.is_some() && rc.mutability.is_none() => {
                                let r = rc.self_token.span().byte_range();
                                ed.push(r.start, r.start, "mut ", "E8-mutself", false);
                            }
                            _ => die(&format!("{ctx}: @@mutself but receiver is not `&self`")),
                        }
                    }
                    // E17: a returned `impl Iterator<Item = X>` is the eager stand-in `VxIter<X>`
                    if d.viter {
                        if let syn::ReturnType::Type(_, ty) = &sig.output {
                            if let Some(item) = impl_iterator_item(ty, &src.text) {
                                let r = ty.span().byte_range();
                                ed.push(r.start, r.end, format!("VxIter<{item}>"), "E17-iterator-source", true);
                            }
                        }
                    }
                    if let Some(rn) = &d.ret {
                        match &sig.output {
                            syn::ReturnType::Type(_, ty) => {
                                let r = ty.span().byte_range();
                                ed.push(r.start, r.start, format!("({rn}: "), "splice-named-return", false);
                                ed.push(r.end, r.end, ")", "splice-named-return", false);
                            }
                            syn::ReturnType::Default => die(&format!("{ctx}: @@ret on a function without return type")),
                        }
                    }
                    let mut mut_self_pre = String::new();
                    if let Some(syn::FnArg::Receiver(rc)) = sig.inputs.first() {
                        if rc.reference.is_none() {
                            if let Some(m) = &rc.mutability {
                                let r = m.span().byte_range();
                                let e = rc.self_token.span().byte_range().start;
                                ed.push(r.start, e, "", "E16-mut-self", false);
                                ed.rename_self = true;
                                mut_self_pre = "        let mut vx_self = self;\n".to_string();
                            }
                        }
                    }
                    // E26: a parameter that is `_` now, or carries another name than on the unchanged tree (recorded in
                    // units/baseline.json, handed in with --params), gets the recorded name: contracts name parameters
                    let mut cur_params: Vec<String> = vec![];
                    {
                        let recorded = param_names.get(&key_sel);
                        let mut k = 0usize;
                        for inp in &sig.inputs {
                            if let syn::FnArg::Typed(pt) = inp {
                                let want = recorded.and_then(|v| v.get(k)).filter(|n| !n.is_empty() && n.as_str() != "_");
                                match &*pt.pat {
                                    syn::Pat::Wild(w) => {
                                        cur_params.push("_".into());
                                        let r = w.span().byte_range();
                                        let name = want.cloned().unwrap_or_else(|| format!("_vx_p{k}"));
                                        ed.push(r.start, r.end, name, "E26-parameter-named-as-recorded", false);
                                    }
                                    syn::Pat::Ident(pi) => {
                                        let cur = pi.ident.to_string();
                                        cur_params.push(cur.clone());
                                        if let Some(w) = want {
                                            if *w != cur {
                                                let r = pi.ident.span().byte_range();
                                                ed.push(r.start, r.end, w.clone(), "E26-parameter-named-as-recorded", false);
                                                ed.param_renames.push((cur, w.clone()));
                                            }
                                        }
                                    }
                                    _ => cur_params.push(String::new()),
                                }
                                k += 1;
                            }
                        }
                    }
                    fn_params = cur_params;
                    // visit signature parts + body for automatic edits
                    for inp in &sig.inputs {
                        ed.visit_fn_arg(inp);
                    }
                    if !stub_this {
                        ed.before_next_pass(&f.block.stmts);
                        for s in &f.block.stmts {
                            ed.visit_stmt(s);
                        }
                    }
                    if let (Some(tn), false) = (&d.tail, stub_this) {
                        match f.block.stmts.last() {
                            Some(syn::Stmt::Expr(e, None)) => {
                                let r = e.span().byte_range();
                                ed.push(r.start, r.start, format!("let {tn} = "), "splice-tail-binding", false);
                                ed.push(r.end, r.end, ";", "splice-tail-binding", false);
                            }
                            _ => die(&format!("{ctx}: @@tail but the function body does not end in a tail expression")),
                        }
                    }
                    ed.finish_cfg();
                    if !stub_this {
                        check_used(&ed, d, &ctx);
                    }
                    let mut sig_text = apply_edits(&src.text, sig_lo, sig_hi, &ed.edits, &mut counts).unwrap_or_else(|e| die(&format!("{ctx}: {e}")));
                    let sig_trim = sig_text.trim_end().to_string();
                    sig_text = sig_trim;
                    if let Some(w) = &d.wher {
                        if sig.generics.where_clause.is_some() {
                            let t = sig_text.trim_end().trim_end_matches(',').to_string();
                            sig_text = format!("{t},\n        {w}");
                        } else {
                            sig_text = format!("{sig_text}\n    where {w}");
                        }
                        *counts.entry("E9-where".into()).or_insert(0) += 1;
                    }
                    let body = if stub_this {
                        "        unimplemented!()\n".to_string()
                    } else {
                        apply_edits(&src.text, blk_r.start + 1, blk_r.end - 1, &ed.edits, &mut counts).unwrap_or_else(|e| die(&format!("{ctx}: {e}")))
                    };
                    let vis = if d.nopub { "" } else { "pub " };
                    let mk = |sig_text: &str, spec: &str| -> String {
                        let mut s = String::new();
                        if stub_this {
                            s.push_str("// vx:STUBBED — contract kept as ASSUMED, body UNVERIFIED\n#[verifier::external_body]\n");
                        }
                        for a in &d.fn_attrs {
                            s.push_str(a);
                            s.push('\n');
                        }
                        s.push_str(vis);
                        s.push_str(sig_text);
                        s.push('\n');
                        s.push_str(spec);
                        s.push_str("{\n");
                        if !stub_this {
                            s.push_str(&mut_self_pre);
                            s.push_str(&d.pre);
                        }
                        s.push_str(&body);
                        if !stub_this {
                            s.push_str(&d.post);
                            if let Some(tn) = &d.tail {
                                s.push_str(&format!("\n        {tn}\n"));
                            }
                        }
                        s.push_str("}\n");
                        s
                    };
                    let spec_used: String = if stub_this && nospec { String::new() } else { d.spec.clone() };
                    let mut text = mk(&sig_text, &spec_used);
                    if canary && !d.nocanary && !stub_this && spec_has_requires(&d.spec) {
                        let fname = d.name.clone().unwrap_or_else(|| sig.ident.to_string());
                        let csig = replace_fn_name(&sig_text, &fname, &format!("{fname}__canary"));
                        let cspec = canary_spec(&d.spec);
                        text.push_str("// vx:canary — must FAIL: a verified canary means a contradictory precondition\n");
                        text.push_str(&mk(&csig, &cspec));
                    }
                    emitted = text;
                    src_range = (sig_lo, blk_r.end);
                }
                let mut text = emitted;
                // `$loopK` = the name the source gives to the variable of `for` loop K
                for (k, name) in &ed.loop_vars {
                    text = text.replace(&format!("$loop{k}"), name);
                }
                // `$cK_J` = the name the source gives to parameter J of closure K
                for (k, j, name) in &ed.closure_params {
                    text = text.replace(&format!("$c{k}_{j}"), name);
                }
                // `@@bind $name ~anchor`
                for (ph, anchor) in &d.binds {
                    // `$name#k` = the k-th identifier the pattern binds
                    let (ph, occ) = match ph.split_once('@') { Some((p, j)) => (p.to_string(), j.parse::<usize>().unwrap_or(0)), None => (ph.clone(), 0) };
                    let (ph, nth) = match ph.split_once('#') { Some((p, k)) => (p.to_string(), k.parse::<usize>().unwrap_or(0)), None => (ph.clone(), 0) };
                    let ph = &ph;
                    let mut lf = LetFinder { src: &src.text, anchor, nth, skip: occ, found: None };
                    lf.visit_block(f.block);
                    let bind_idx = d.binds.iter().position(|(p2, a2)| a2 == anchor && p2.starts_with(ph.as_str())).unwrap_or(usize::MAX);
                    let id = match lf.found {
                        Some(id) => id,
                        None if d.binds_opt.contains(&bind_idx) => format!("vx_unbound_{}", ph.trim_start_matches('$')),
                        None => die(&format!("{ctx}: @@bind anchor matches no `let` statement: {anchor}")),
                    };
                    text = text.replace(ph.as_str(), &id);
                    // a slice's wrapper (hand-written text in front of it) may use the placeholder too,
                    // e.g. as the name of a parameter
                    if d.is_slice && last_text_fn_at <= output.len() {
                        let head = output[last_text_fn_at..].replace(ph.as_str(), &id);
                        output.truncate(last_text_fn_at);
                        output.push_str(&head);
                    }
                }
                // longest placeholders first (`$last10` before `$last1`)
                slice_binds.sort_by(|a, b| b.0.len().cmp(&a.0.len()));
                for (ph, name) in &slice_binds {
                    text = text.replace(ph.as_str(), name);
                }
                pending_tail_subst = slice_binds.clone();
                for (a, b) in &d.substs {
                    if !text.contains(a.as_str()) {
                        if text.contains("vx: EMPTY slice") {
                            continue;
                        }
                        die(&format!("{ctx}: @@subst pattern not found: {a}"));
                    }
                    text = text.replace(a.as_str(), b);
                    *counts.entry("subst-declared".into()).or_insert(0) += 1;
                }
                for (a, b) in &d.substs_opt {
                    if text.contains(a.as_str()) {
                        text = text.replace(a.as_str(), b);
                        *counts.entry("subst-declared".into()).or_insert(0) += 1;
                    }
                }
                let text = squeeze_blank_lines(&text);
                let l0 = cur_line(&output);
                output.push_str(&format!(
                    "// vx:{} {} {} (src lines {}-{})\n",
                    if d.is_slice { "slice" } else { "fn" },
                    d.file,
                    stub_key,
                    line_of(&src.text, src_range.0),
                    line_of(&src.text, src_range.1)
                ));
                output.push_str(&text);
                fn_maps.push(serde_json::json!({
                    "selector": d.selector, "file": d.file, "slice": d.is_slice,
                    "name": if d.is_slice && !last_text_fn.is_empty() { last_text_fn.clone() } else if d.hoist.is_some() && !hoist_name.is_empty() { hoist_name.clone() } else { d.name.clone().unwrap_or_else(|| f.sig.ident.to_string()) },
                    "src_lines": [line_of(&src.text, src_range.0), line_of(&src.text, src_range.1)],
                    "src_bytes": [src_range.0, src_range.1],
                    "dropped_bytes": ed.dropped.iter().map(|(a, b)| vec![*a, *b]).collect::<Vec<_>>(),
                    "params": fn_params,
                    "fn_bytes": [f.sig.span().byte_range().start, f.block.span().byte_range().end],
                    "out_lines": [l0, cur_line(&output)],
                    "awaits_erased": ed.awaits,
                    "closures": ed.closure_idx, "loops": ed.loop_idx,
                    "has_requires": spec_has_requires(&d.spec),
                    "key": key_sel, "variants": n_variants, "variant": vsel, "closures_unspecified": ed.closures_unspecified, "loops_unspecified": ed.loop_idx.saturating_sub(ed.loops_used.len()),
                    "stubbed": stub_this,
                    "edits": counts,
                }));
            }
        }
    }

    if let Some(parent) = out.parent() {
        let _ = fs::create_dir_all(parent);
    }
    fs::write(&out, &output).unwrap_or_else(|e| die(&format!("cannot write {}: {e}", out.display())));
    if let Some(m) = map {
        let j = serde_json::json!({ "template": tpl.display().to_string(), "functions": fn_maps, "items": item_maps, "canary": canary, "stubbed": stubbed });
        fs::write(&m, serde_json::to_string_pretty(&j).unwrap()).unwrap();
    }
}

fn check_used(ed: &Ed, d: &FnDir, ctx: &str) {
    if !ed.errors.is_empty() {
        die(&format!("{ctx}: {}", ed.errors.join("; ")));
    }
    for k in d.closures.keys() {
        if !ed.closures_used.contains(k) {
            die(&format!("{ctx}: closure#{k} does not exist any more ({} closures found)", ed.closure_idx));
        }
    }
    for (n, (anchor, _)) in d.closures_by_text.iter().enumerate() {
        if d.closures_by_text_opt.get(n).copied().unwrap_or(false) && ed.closures_by_text_used[n] == 0 {
            continue;
        }
        if ed.closures_by_text_used[n] != 1 {
            die(&format!("{ctx}: @@closure ~{anchor}: {} closures match (exactly one expected)", ed.closures_by_text_used[n]));
        }
    }
    for (n, (k, anchor, _)) in d.closures_pref.iter().enumerate() {
        if ed.closures_pref_used[n] != 1 {
            die(&format!("{ctx}: @@closure {k} ~{anchor}: no such closure any more ({} closures found)", ed.closure_idx));
        }
    }
    for (n, (anchor, _)) in d.caughts.iter().enumerate() {
        if ed.caughts_used[n] != 1 {
            die(&format!("{ctx}: @@caught {anchor}: {} expressions `AssertUnwindSafe(async {{ .. }}).catch_unwind()` match (exactly one expected)", ed.caughts_used[n]));
        }
    }
    for (n, (m, name, _)) in d.letrecvs.iter().enumerate() {
        if ed.letrecvs_used[n] != 1 {
            die(&format!("{ctx}: @@letrecv {m} {name}: {} calls `<expr>.{m}(..)` found (exactly one expected)", ed.letrecvs_used[n]));
        }
    }
    for (n, (m, name, _)) in d.letargs.iter().enumerate() {
        if ed.letargs_used[n] != 1 {
            die(&format!("{ctx}: @@letarg {m} {name}: {} calls `<path>.{m}(<one argument>)` found (exactly one expected)", ed.letargs_used[n]));
        }
    }
    for k in &d.inline_then {
        if !ed.inline_then_used.contains(k) {
            die(&format!("{ctx}: @@inline_then {k}: closure#{k} is not the argument of a `.then(|| ..)` call any more"));
        }
    }
    if d.noloops && ed.loop_idx > 0 {
        die(&format!("{ctx}: @@noloops: the body has {} loops (this contract is for a loop-free body)", ed.loop_idx));
    }
    for k in d.loops.keys() {
        if !ed.loops_used.contains(k) {
            die(&format!("{ctx}: loop#{k} does not exist any more ({} loops found)", ed.loop_idx));
        }
    }
    for (k, (a, _)) in d.befores.iter().enumerate() {
        if !ed.befores_used[k] {
            die(&format!("{ctx}: @@before anchor not found: {a}"));
        }
    }
    for k in d.genloops.keys() {
        if !ed.genloops_used.contains(k) {
            die(&format!("{ctx}: @@genloop {k}: no such generated loop any more ({} loops generated)", ed.genloop_idx));
        }
    }
    for (k, (a, _)) in d.restmts.iter().enumerate() {
        if ed.restmts_used[k] != 1 {
            die(&format!("{ctx}: @@restmt anchor matches {} statements (exactly one expected): {a}", ed.restmts_used[k]));
        }
    }
    for (k, (a, _)) in d.macros.iter().enumerate() {
        if !ed.macros_used[k] && !d.macros_opt.contains(&k) {
            die(&format!("{ctx}: @@macro {a}! not found"));
        }
    }
}

/// anchor `abc` = statement text starts with `abc`; anchor `~abc` = statement text contains `abc`
/// the key of a slice directive (what `--stub` / `--variant` address): the `@@block` anchor is part
/// of it when it differs from `@@from`, so that several slices `@@from ^` of one function differ
fn slice_key(selector: &str, from: Option<&str>, block: Option<&str>) -> String {
    let from = from.unwrap_or_default();
    match block {
        Some(b) if b != from => format!("{selector} @from:{from} @block:{b}"),
        _ => format!("{selector} @from:{from}"),
    }
}

/// the argument texts of the first call in `block` whose text starts with `anchor` (the user-code call of E20)
fn user_call_args(src: &str, block: &syn::Block, anchor: &str) -> Option<Vec<String>> {
    struct F<'a> { src: &'a str, anchor: &'a str, found: Option<Vec<String>> }
    impl<'ast, 'a> Visit<'ast> for F<'a> {
        fn visit_expr_call(&mut self, c: &'ast syn::ExprCall) {
            if self.found.is_none() && self.src[c.span().byte_range()].starts_with(self.anchor) {
                self.found = Some(c.args.iter().map(|a| self.src[a.span().byte_range()].to_string()).collect());
                return;
            }
            visit::visit_expr_call(self, c);
        }
    }
    let mut f = F { src, anchor, found: None };
    f.visit_block(block);
    f.found
}

fn caught_guarded(repl: &str) -> String {
    match repl.split_once("|||") {
        Some((g, _)) => g.trim().to_string(),
        None => repl.to_string(),
    }
}

fn anchor_match(text: &str, anchor: &str) -> bool {
    let anchor = anchor.strip_prefix('>').unwrap_or(anchor);
    let anchor = anchor.strip_prefix('<').unwrap_or(anchor);
    // `HEAD … TAIL`: the text starts with HEAD and ends with TAIL (the shape of a whole statement, e.g.
    // `let x = async {…};` which `let x = async { .. }.await;` does not have)
    if let Some((h, t)) = anchor.split_once('…') {
        // (white space is not significant in this form: a statement spread over several lines can be spelled)
        let nows = |x: &str| x.chars().filter(|c| !c.is_whitespace()).collect::<String>();
        let (h, t, text) = (nows(h), nows(t), nows(text));
        let head = match h.strip_prefix('~') { Some(c) => text.contains(c), None => text.starts_with(h.as_str()) };
        return text.len() >= h.len() + t.len() && head && text.ends_with(t.as_str());
    }
    match anchor.strip_prefix('~') {
        Some(a) => text.contains(a.trim()),
        None => text.starts_with(anchor),
    }
}

fn collect_pat_idents(p: &syn::Pat, out: &mut Vec<String>) {
    match p {
        syn::Pat::Ident(i) => out.push(i.ident.to_string()),
        syn::Pat::Tuple(t) => { for e in &t.elems { collect_pat_idents(e, out); } }
        syn::Pat::Type(t) => collect_pat_idents(&t.pat, out),
        syn::Pat::Reference(r) => collect_pat_idents(&r.pat, out),
        syn::Pat::TupleStruct(t) => { for e in &t.elems { collect_pat_idents(e, out); } }
        syn::Pat::Paren(p) => collect_pat_idents(&p.pat, out),
        _ => {}
    }
}

fn spec_has_requires(spec: &str) -> bool {
    spec.lines().any(|l| l.trim_start().starts_with("requires"))
}

fn canary_spec(spec: &str) -> String {
    // keep everything up to the first `ensures` line, then `ensures false`, then resume at
    // `decreases` / `no_unwind` if present
    let mut out = String::new();
    let mut mode = 0; // 0 = before ensures, 1 = inside ensures, 2 = after
    for l in spec.lines() {
        let t = l.trim_start();
        if mode == 0 && t.starts_with("ensures") {
            mode = 1;
            continue;
        }
        if mode == 1 {
            if t.starts_with("decreases") || t.starts_with("no_unwind") || t.starts_with("opens_invariants") {
                mode = 2;
            } else {
                continue;
            }
        }
        if mode == 2 {
            // emitted after `ensures false`
            continue;
        }
        out.push_str(l);
        out.push('\n');
    }
    out.push_str("    ensures false,\n");
    let mut after = false;
    for l in spec.lines() {
        let t = l.trim_start();
        if t.starts_with("decreases") || t.starts_with("no_unwind") {
            after = true;
        }
        if after {
            out.push_str(l);
            out.push('\n');
        }
    }
    out
}

fn replace_fn_name(sig: &str, old: &str, new: &str) -> String {
    let pat = format!("fn {old}");
    match sig.find(&pat) {
        Some(p) => format!("{}fn {}{}", &sig[..p], new, &sig[p + pat.len()..]),
        None => sig.to_string(),
    }
}

fn squeeze_blank_lines(s: &str) -> String {
    let mut out = String::new();
    let mut blank = 0;
    for l in s.lines() {
        if l.trim().is_empty() {
            blank += 1;
            if blank > 1 {
                continue;
            }
        } else {
            blank = 0;
        }
        out.push_str(l.trim_end());
        out.push('\n');
    }
    out
}
