//! C07 replay (finding FIXED by the `fix:` commit recorded in /verif/known-findings.txt): a `@serial`
//! scenario arriving from a lazy parser while concurrent scenarios are in flight must wait for them.
//! Before the fix it started next to `slow 2`; run by `tools/fixed_replay.sh` in the thorough tier of C07.
use std::{sync::Mutex, time::Duration};

use cucumber::{World as _, given, parser, Parser};
use futures::{stream, StreamExt as _};

static LOG: Mutex<Vec<String>> = Mutex::new(Vec::new());

#[derive(Clone, Copy, cucumber::World, Debug, Default)]
struct World;

#[given(expr = "I work for {int} ms as {string}")]
async fn work(_: &mut World, ms: u64, name: String) {
    LOG.lock().unwrap().push(format!("start {name}"));
    tokio::time::sleep(Duration::from_millis(ms)).await;
    LOG.lock().unwrap().push(format!("end {name}"));
}

/// Parser delivering the first feature at once and the second one 200 ms later.
#[derive(Clone, Copy, Debug, Default)]
struct Lazy;

impl<I> Parser<I> for Lazy {
    type Cli = cucumber::cli::Empty;
    type Output = stream::BoxStream<'static, parser::Result<gherkin::Feature>>;

    fn parse(self, _: I, _: Self::Cli) -> Self::Output {
        let a = gherkin::Feature::parse_path("tests/features/vx_kf/c07/a.feature", gherkin::GherkinEnv::default()).unwrap();
        let b = gherkin::Feature::parse_path("tests/features/vx_kf/c07/b.feature", gherkin::GherkinEnv::default()).unwrap();
        stream::once(async move { Ok(a) })
            .chain(stream::once(async move {
                tokio::time::sleep(Duration::from_millis(200)).await;
                Ok(b)
            }))
            .boxed()
    }
}

#[tokio::test]
async fn serial_scenario_runs_alone() {
    let _w = World::cucumber::<&str>()
        .with_parser(Lazy)
        .max_concurrent_scenarios(4)
        .run("ignored")
        .await;
    let log = LOG.lock().unwrap().clone();
    println!("{log:#?}");
    let s = log.iter().position(|l| l == "start alone").unwrap();
    let e = log.iter().position(|l| l == "end alone").unwrap();
    // nothing else may start or end between the start and the end of the serial scenario, and
    // nothing else may be running when it starts
    let running_before: i32 = log[..s].iter().map(|l| if l.starts_with("start") { 1 } else { -1 }).sum();
    assert_eq!(e, s + 1, "something happened while the @serial scenario ran: {log:?}");
    assert_eq!(running_before, 0, "other scenarios were running when the @serial scenario started: {log:?}");
}
