Feature: kf1
  @retry(1)
  Scenario: after hook fails on the first attempt only
    Given a step
