Feature: kfc
  Background:
    Given a flaky step

  @retry(1)
  Scenario: background only
