Feature: kfb
  @retry(1)
  Scenario: step fails first, before hook fails on the last attempt
    Given a flaky step
