Feature: concurrent ones

  Scenario: slow 1
    Given I work for 300 ms as "slow 1"

  Scenario: slow 2
    Given I work for 900 ms as "slow 2"
