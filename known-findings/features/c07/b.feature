Feature: a late serial one

  @serial
  Scenario: alone
    Given I work for 100 ms as "alone"
