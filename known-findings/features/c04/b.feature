Feature: second, late

  Scenario: late
    Given I work for 50 ms
