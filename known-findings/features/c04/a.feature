Feature: first, quick

  Scenario: quick
    Given I work for 50 ms
