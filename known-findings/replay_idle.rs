//! C04 replay (finding FIXED by the second `fix:` commit recorded in /verif/known-findings.txt; before the fix
//! the run spun forever inside one poll and never terminated): the parser delivers the second feature only after everything of the first one has
//! finished, so the runner is idle (nothing running, nothing runnable, parser not finished) for a while.
use std::time::Duration;

use cucumber::{World as _, given, parser, Parser, StatsWriter as _};
use futures::{stream, StreamExt as _};

#[derive(Clone, Copy, cucumber::World, Debug, Default)]
struct World;

#[given(expr = "I work for {int} ms")]
async fn work(_: &mut World, ms: u64) {
    tokio::time::sleep(Duration::from_millis(ms)).await;
}

#[derive(Clone, Copy, Debug, Default)]
struct Lazy;

impl<I> Parser<I> for Lazy {
    type Cli = cucumber::cli::Empty;
    type Output = stream::BoxStream<'static, parser::Result<gherkin::Feature>>;

    fn parse(self, _: I, _: Self::Cli) -> Self::Output {
        let a = gherkin::Feature::parse_path("tests/features/vx_kf/c04/a.feature", gherkin::GherkinEnv::default()).unwrap();
        let b = gherkin::Feature::parse_path("tests/features/vx_kf/c04/b.feature", gherkin::GherkinEnv::default()).unwrap();
        stream::once(async move { Ok(a) })
            .chain(stream::once(async move {
                tokio::time::sleep(Duration::from_millis(500)).await;
                Ok(b)
            }))
            .boxed()
    }
}

#[tokio::test]
async fn run_terminates_when_the_parser_is_slower_than_the_scenarios() {
    let run = World::cucumber::<&str>().with_parser(Lazy).run("ignored");
    let w = tokio::time::timeout(Duration::from_secs(10), run)
        .await
        .expect("the run did not terminate within 10 s");
    assert_eq!(w.passed_steps(), 2);
}
