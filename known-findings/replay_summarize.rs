//! Replays of the recorded known findings against the REAL crate (see /verif/known-findings.txt).
//! Every test asserts what the property statement demands, so it FAILS while the defect is open.
//! Run in a scratch copy of the repository:
//!   cp /verif/known-findings/replay_summarize.rs tests/vx_kf.rs
//!   cp -r /verif/known-findings/features tests/features/vx_kf
//!   cargo test --offline --test vx_kf -- --test-threads 1
use std::sync::atomic::{AtomicUsize, Ordering};

use cucumber::{given, writer, StatsWriter as S, World, WriterExt as _};
use futures::FutureExt as _;

static HOOK_CALLS: AtomicUsize = AtomicUsize::new(0);
static FLAKY_CALLS: AtomicUsize = AtomicUsize::new(0);
static BEFORE_CALLS: AtomicUsize = AtomicUsize::new(0);

#[derive(Debug, Default, World)]
struct W;

#[given("a step")]
fn a_step(_: &mut W) {}

#[given("a flaky step")]
fn a_flaky_step(_: &mut W) {
    assert!(FLAKY_CALLS.fetch_add(1, Ordering::SeqCst) > 0, "fails on the first call only");
}

macro_rules! sink {
    () => {
        writer::Basic::raw(std::io::sink(), writer::Coloring::Never, 0).summarized().assert_normalized()
    };
}

/// KF1 (C01, C12): @retry(1), the after hook panics on attempt 0 only, attempt 1 passes.
#[tokio::test]
async fn kf1_hook_failure_with_retry_left() {
    HOOK_CALLS.store(0, Ordering::SeqCst);
    let w = W::cucumber()
        .after(|_, _, _, _, _| async { if HOOK_CALLS.fetch_add(1, Ordering::SeqCst) == 0 { panic!("boom"); } }.boxed_local())
        .with_writer(sink!())
        .with_default_cli()
        .run("tests/features/vx_kf/kf1")
        .await;
    eprintln!("KF1 exec_failed={} hook_errors={} scenarios={:?}", S::<W>::execution_has_failed(&w), S::<W>::hook_errors(&w), w.scenarios_stats());
    assert!(!S::<W>::execution_has_failed(&w), "C01: the scenario passed its last retry, the run must not be reported failed");
    assert_eq!((w.scenarios_stats().passed, w.scenarios_stats().failed), (1, 0), "C12: counted once, as passed");
}

/// KF-b (C12): @retry(1), the step fails on attempt 0 (retried), the before hook panics on the last attempt.
#[tokio::test]
async fn kfb_before_hook_failure_on_last_attempt_after_a_retry() {
    FLAKY_CALLS.store(0, Ordering::SeqCst);
    BEFORE_CALLS.store(0, Ordering::SeqCst);
    let w = W::cucumber()
        .before(|_, _, _, _| async { if BEFORE_CALLS.fetch_add(1, Ordering::SeqCst) == 1 { panic!("boom"); } }.boxed_local())
        .with_writer(sink!())
        .with_default_cli()
        .run("tests/features/vx_kf/kfb")
        .await;
    eprintln!("KFb exec_failed={} scenarios={:?}", S::<W>::execution_has_failed(&w), w.scenarios_stats());
    assert_eq!(w.scenarios_stats().passed + w.scenarios_stats().skipped + w.scenarios_stats().failed, 1, "C12: the scenario is counted in exactly one bucket");
    assert_eq!(w.scenarios_stats().failed, 1, "C12: its last attempt failed");
}

/// KF-c (C12): a scenario without own steps (background only), first attempt fails, retry passes.
#[tokio::test]
async fn kfc_background_only_scenario_passing_on_retry() {
    FLAKY_CALLS.store(0, Ordering::SeqCst);
    let w = W::cucumber()
        .with_writer(sink!())
        .with_default_cli()
        .run("tests/features/vx_kf/kfc")
        .await;
    eprintln!("KFc exec_failed={} scenarios={:?}", S::<W>::execution_has_failed(&w), w.scenarios_stats());
    assert_eq!(w.scenarios_stats().passed, 1, "C12: the last attempt passed, the scenario is counted as passed");
}
