// Kani cross-proofs on the COMPILED real code (appended to a scratch copy of src/runner/basic.rs
// as `#[cfg(kani)] mod verif_kani;`).  Loop-free harnesses over full-domain symbolic scalars: a
// pass is a complete proof, not a bounded stand-in (no #[kani::unwind]).
use super::*;

// ---- ExecutionFailure::take_world: the contract that the Verus unit `epilogue` ASSUMES ----------
//   r == old.world, final.world == None, every other field unchanged, same variant
#[kani::proof]
fn take_world_skipped() {
    let w: Option<u8> = kani::any();
    let mut f: ExecutionFailure<u8> = ExecutionFailure::StepSkipped(w);
    let r = f.take_world();
    assert!(r == w);
    assert!(matches!(f, ExecutionFailure::StepSkipped(None)));
    std::mem::forget(f);
}

#[kani::proof]
fn take_world_before_hook() {
    let w: Option<u8> = kani::any();
    let info: Info = Arc::new(7u8);
    let mut f: ExecutionFailure<u8> = ExecutionFailure::BeforeHookPanicked {
        world: w,
        panic_info: info.clone(),
        meta: event::Metadata::new(()),
    };
    let r = f.take_world();
    assert!(r == w);
    match &f {
        ExecutionFailure::BeforeHookPanicked { world, panic_info, .. } => {
            assert!(world.is_none());
            assert!(Arc::ptr_eq(panic_info, &info));
        }
        _ => { assert!(false); }
    }
    std::mem::forget(f);
    std::mem::forget(info);
}

#[kani::proof]
fn take_world_step_panicked() {
    let w: Option<u8> = kani::any();
    let is_bg: bool = kani::any();
    let line: u32 = kani::any();
    let column: u32 = kani::any();
    let has_loc: bool = kani::any();
    let loc = if has_loc { Some(step::Location { path: "", line, column }) } else { None };
    // concrete (empty) containers, symbolic scalars only
    let step: Source<gherkin::Step> = Source::new(gherkin::Step {
        keyword: String::new(),
        ty: gherkin::StepType::Given,
        value: String::new(),
        docstring: None,
        table: None,
        span: gherkin::Span { start: 0, end: 0 },
        position: gherkin::LineCol { line: 0, col: 0 },
    });
    let step_copy = step.clone();
    let mut f: ExecutionFailure<u8> = ExecutionFailure::StepPanicked {
        world: w,
        step,
        captures: None,
        loc,
        err: event::StepError::NotFound,
        meta: event::Metadata::new(()),
        is_background: is_bg,
    };
    let r = f.take_world();
    assert!(r == w);
    match &f {
        ExecutionFailure::StepPanicked { world, step, captures, loc: l2, err, is_background, .. } => {
            assert!(world.is_none());
            assert!(*step == step_copy); // `Source` compares by pointer
            assert!(captures.is_none());
            // field by field (comparing the `&'static str` path through `==` makes CBMC unwind memcmp)
            assert!(l2.is_some() == has_loc);
            if let Some(l) = l2 {
                assert!(l.line == line && l.column == column);
            }
            assert!(matches!(err, event::StepError::NotFound));
            assert!(*is_background == is_bg);
        }
        _ => { assert!(false); }
    }
    std::mem::forget(f);
    std::mem::forget(step_copy);
}

// ---- RetryOptions::next_try: same contract as the Verus unit, on the compiled code --------------
#[kani::proof]
fn retry_options_next_try_contract() {
    let current: usize = kani::any();
    let left: usize = kani::any();
    kani::assume(current < usize::MAX);
    let has_after: bool = kani::any();
    let secs: u64 = kani::any();
    let after = if has_after { Some(Duration::from_secs(secs)) } else { None };
    let o = RetryOptions { retries: Retries { current, left }, after };
    let r = o.next_try();
    assert!(r.is_some() == (left > 0));
    if let Some(n) = r {
        assert!(n.retries.left == left - 1);
        assert!(n.retries.current == current + 1);
        assert!(n.after == after);
    }
}
