use cucumber::event::Retries;
#[test]
fn vx_replay() {
    let n: usize = {v0};
    let r = Retries::initial(n);
    assert!(r.current == 0 && r.left == n, "initial({n}) = {r:?}");
}
