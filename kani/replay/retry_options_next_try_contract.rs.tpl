use std::time::Duration;
use cucumber::{event::Retries, runner::basic::RetryOptions};
#[test]
fn vx_replay() {
    let current: usize = {v0};
    let left: usize = {v1};
    let has_after: bool = {v2} != 0;
    let secs: u64 = {v3};
    let after = if has_after { Some(Duration::from_secs(secs)) } else { None };
    let o = RetryOptions { retries: Retries { current, left }, after };
    let r = o.next_try();
    assert_eq!(r.is_some(), left > 0, "next_try exists iff budget left ({o:?})");
    if let Some(n) = r {
        assert_eq!(n.retries.left, left - 1, "left decremented ({o:?})");
        assert_eq!(n.retries.current, current + 1, "current incremented ({o:?})");
        assert_eq!(n.after, after, "delay kept ({o:?})");
    }
}
