// Kani cross-proofs on the COMPILED real code of src/event.rs (full usize domain, loop-free).
use super::*;

#[kani::proof]
fn retries_next_try_contract() {
    let current: usize = kani::any();
    let left: usize = kani::any();
    kani::assume(current < usize::MAX);
    let r = Retries { current, left }.next_try();
    assert!(r.is_some() == (left > 0));
    if let Some(n) = r {
        assert!(n.left == left - 1);
        assert!(n.current == current + 1);
    }
}

#[kani::proof]
fn retries_initial_contract() {
    let n: usize = kani::any();
    let r = Retries::initial(n);
    assert!(r.current == 0 && r.left == n);
}
